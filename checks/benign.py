"""Property-preserving refactorings for the false-alarm self-test (`checks/run.py selftest-benign`): every registered
check must stay silent (exit 0) on a tree to which ALL of them are applied.

    (file, old, new)
"""
BENIGN = [
    # samplers re-implemented through other entry points / antithetic use of the draw / other listing order
    ("program/distribution/normal.py", "return norm.rvs(loc=float(mu), scale=math.sqrt(float(sigma2)))",
     "import numpy as np\n        return np.random.normal(float(mu), math.sqrt(float(sigma2)))"),
    ("program/distribution/exponential.py", "return expon.rvs(scale=1 / float(lamb))",
     "import math, random\n        return -math.log(random.random()) / float(lamb)"),
    ("program/distribution/categorical.py", "return random.choices(range(len(probabilities)), weights=probabilities, k=1)[0]",
     "u = random.random()\n        c = 0.0\n        for i, p in enumerate(probabilities):\n            c += p\n            if u <= c:\n                return i\n        return len(probabilities) - 1"),
    ("program/distribution/discrete_uniform.py", "return random.choice(self.values)",
     "return random.randint(int(self.values[0]), int(self.values[-1]))"),
    ("program/assignment/poly_assignment.py", "return random.choices(polynomials, weights=probabilities, k=1)[0]",
     "return random.choices(polynomials[::-1], weights=probabilities[::-1], k=1)[0]"),
    ("program/distribution/gamma.py", "return gamma.rvs(float(k), scale=float(theta))",
     "import random\n        return random.gammavariate(float(k), float(theta))"),
    ("program/distribution/uniform.py", "return uniform.rvs(loc=float(a), scale=float(b) - float(a))",
     "import random\n        return float(b) - random.random() * (float(b) - float(a))"),
    # generated names: other start of the counter, another prefix
    ("utils/identifiers.py", "_count_unique_var = 0", "_count_unique_var = 1000"),
    ("program/condition/atom_cond.py", 'new_var = sympify(get_unique_var(name="r"))', 'new_var = sympify(get_unique_var(name="red"))'),
    # closed forms in another (equivalent) shape, memoisation removed / bounded
    ("recurrences/solver/cyclic_solver.py", "        return solution.expand()", "        return solution.expand().collect(self.n)"),
    ("recurrences/rec_builder.py", "    @lru_cache(maxsize=None)\n    def get_recurrence(self, monomial: Expr):", "    def get_recurrence(self, monomial: Expr):"),
    ("program/distribution/normal.py", "    @lru_cache()\n    def get_moment", "    @lru_cache(maxsize=2)\n    def get_moment"),
]
