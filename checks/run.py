#!/venv/bin/python
"""Entry point of every registered check.

    checks/run.py <C05|C12|C17|C20> [--tier quick|thorough] [--replay FILE] [--runs N] [--workers N]
    checks/run.py selftest-determinism [--check ID] [--n N]
    checks/run.py setup

exit 0  property held on everything explored (KNOWN-FINDING lines may have been printed)
exit 1  `VIOLATION property=<id> replay=<path>` printed
exit 2  harness error (HARNESS-ERROR line), determinism self-check failed, or outer timeout
"""
import argparse
import importlib
import json
import os
import shutil
import sys
import time

HERE = os.path.dirname(os.path.abspath(__file__))
VERIF = os.path.dirname(HERE)
sys.path.insert(0, VERIF)

if os.environ.get("PYTHONHASHSEED") != "0":
    # the orchestrator itself never iterates over a set to take a decision, but pin it anyway
    os.environ["PYTHONHASHSEED"] = "0"
    os.execv(sys.executable, [sys.executable] + sys.argv)

from sim import orch  # noqa: E402

CHECKS = ["C05", "C12", "C17", "C20"]


def plugin(check):
    return importlib.import_module("sim.check_" + check.lower())


def match_known(check, sig, known):
    for f in known.get("findings", []):
        if f.get("property") != check or f.get("status") != "open":
            continue
        want = f.get("signature", {})
        if all(sig.get(k) == v for k, v in want.items()):
            return f
    return None


def do_replay(check, path, scratch):
    mod = plugin(check)
    with open(path) as f:
        rep = json.load(f)
    res = orch.run_single(check, {"index": 0, "case": rep["case"], "keep_case": False}, scratch,
                          hashseed=rep.get("hashseed", 0), timeout=mod.TIMEOUT, extra=rep.get("extra"))
    print(json.dumps({k: v for k, v in res.items() if k in ("outcome", "problems", "error", "notes", "detail")}, indent=1, default=str)[:4000])
    if res.get("outcome") == "violation":
        same = mod.vclass(res) == rep.get("class")
        print(f"replay reproduces the violation{'' if same else ' (different class: ' + str(mod.vclass(res)) + ')'}")
        print(f"VIOLATION property={check} replay={path}")
        return 1
    if res.get("outcome") in ("harness_error", "timeout", "worker_died"):
        print(f"HARNESS-ERROR replay did not complete: {res.get('outcome')}\n{res.get('trace') or res.get('log_tail')}")
        return 2
    print("replay does not violate the property on this tree")
    return 0


def determinism_sample(check, master, scratch, n, workers, tier):
    """run n run-seeds twice in fresh interpreters (second time in a different batch layout) and compare digests"""
    mod = plugin(check)
    hs = getattr(mod, "hashseed_for", lambda s: 0)
    seeds = [orch.derive_seed(master, check, i) for i in range(n)]
    if getattr(mod, "FIXED_BATCHES", False):
        b = mod.BATCH[tier]
        runs = [{"index": i, "seed": s} for i, s in enumerate(seeds)]
        mk = lambda: [orch.Job(check, runs[i:i + b], mod.batch_hashseed(runs[i]["seed"]), mod.TIMEOUT, {"tier": tier}) for i in range(0, n, b)]
        a = orch.run_jobs(mk(), workers, scratch)
        bb = orch.run_jobs(list(reversed(mk())), max(1, workers // 2), scratch)
        diffs = []
        for x, y in zip(a, bb):
            if (x.get("outcome"), x.get("digest")) != (y.get("outcome"), y.get("digest")):
                # real wall-clock step timeouts are the one thing the simulator does not own: runs that hit one are not compared
                if "timeout" in (x.get("outcome"), y.get("outcome")) or x.get("had_timeout") or y.get("had_timeout"):
                    continue
                diffs.append((x.get("seed"), x.get("outcome"), x.get("digest"), y.get("outcome"), y.get("digest")))
        return diffs, len(seeds)
    ja = [orch.Job(check, [{"index": i, "seed": s}], hs(s), mod.TIMEOUT, {"tier": tier}) for i, s in enumerate(seeds)]
    a = orch.run_jobs(ja, workers, scratch)
    if getattr(mod, "ONE_RUN_PER_WORLD", False):
        jb = [orch.Job(check, [{"index": i, "seed": s}], hs(s), mod.TIMEOUT, {"tier": tier}) for i, s in reversed(list(enumerate(seeds)))]
    else:
        jb = [orch.Job(check, [{"index": i, "seed": s} for i, s in reversed(list(enumerate(seeds)))], 0, mod.TIMEOUT, {"tier": tier})]
    b = orch.run_jobs(jb, max(1, workers // 2), scratch)
    diffs = []
    for x, y in zip(a, b):
        if (x.get("outcome"), x.get("digest")) != (y.get("outcome"), y.get("digest")):
            if "timeout" in (x.get("outcome"), y.get("outcome")):
                continue
            diffs.append((x.get("seed"), x.get("outcome"), x.get("digest"), y.get("outcome"), y.get("digest")))
    return diffs, len(seeds)


def sensitivity(args, scratch):
    """apply each hand-written mutant to a scratch copy of the working tree; the owning check must exit 1"""
    import subprocess
    from checks.mutants import MUTANTS

    only = args.check_id
    missed = []
    caught = 0
    for mid, owner, rel, old, new in MUTANTS:
        if only and only not in (owner, mid):
            continue
        try:
            plugin(owner)
        except ImportError:
            continue
        tree = os.path.join(scratch, "tree-" + mid)
        subprocess.run(["rsync", "-a", "--exclude", ".git", "--exclude", "__pycache__", orch.repo_path() + "/", tree + "/"], check=True)
        path = os.path.join(tree, rel)
        with open(path) as f:
            src = f.read()
        if old not in src:
            print(f"sensitivity {mid}: anchor text not found in {rel} (tree changed?) -- skipped")
            shutil.rmtree(tree, ignore_errors=True)
            continue
        with open(path, "w") as f:
            f.write(src.replace(old, new, 1))
        env = dict(os.environ, POLAR_REPO=tree, VERIF_REPLAY_DIR=os.path.join(scratch, "replays-" + mid))
        t = time.time()
        p = subprocess.run([sys.executable, os.path.abspath(__file__), owner, "--tier", "quick", "--no-evidence"] +
                           (["--runs", str(args.runs)] if args.runs else []),
                           env=env, stdout=subprocess.PIPE, stderr=subprocess.STDOUT, text=True)
        vio = [l for l in p.stdout.splitlines() if l.startswith("VIOLATION")]
        ok = p.returncode == 1 and vio
        print(f"sensitivity {mid} ({owner}): exit={p.returncode} {'CAUGHT' if ok else 'MISSED'} in {time.time() - t:.0f}s")
        if ok:
            caught += 1
        else:
            missed.append(mid)
            print(p.stdout[-1500:])
        shutil.rmtree(tree, ignore_errors=True)
    print(f"sensitivity: caught {caught}, missed {missed}")
    return 0 if not missed else 2


def benign(args, scratch):
    """apply all property-preserving refactorings of checks/benign.py to a scratch copy: every check must exit 0 there"""
    import subprocess
    from checks.benign import BENIGN

    tree = os.path.join(scratch, "tree-benign")
    subprocess.run(["rsync", "-a", "--exclude", ".git", "--exclude", "__pycache__", orch.repo_path() + "/", tree + "/"], check=True)
    for rel, old, new in BENIGN:
        path = os.path.join(tree, rel)
        with open(path) as f:
            src = f.read()
        if old not in src:
            print(f"benign: anchor not found in {rel} -- skipped")
            continue
        with open(path, "w") as f:
            f.write(src.replace(old, new, 1))
    bad = []
    for check in ([args.check_id] if args.check_id else CHECKS):
        env = dict(os.environ, POLAR_REPO=tree, VERIF_REPLAY_DIR=os.path.join(scratch, "replays-benign"))
        t = time.time()
        p = subprocess.run([sys.executable, os.path.abspath(__file__), check, "--tier", "quick", "--no-evidence"] +
                           (["--runs", str(args.runs)] if args.runs else []),
                           env=env, stdout=subprocess.PIPE, stderr=subprocess.STDOUT, text=True)
        print(f"benign {check}: exit={p.returncode} in {time.time() - t:.0f}s")
        if p.returncode != 0:
            bad.append(check)
            print("\n".join(l for l in p.stdout.splitlines() if not l.startswith("KNOWN"))[-2500:])
    print(f"benign: alarms raised by {bad}" if bad else "benign: all checks silent")
    return 0 if not bad else 2


def main():
    ap = argparse.ArgumentParser()
    ap.add_argument("check")
    ap.add_argument("--tier", default=os.environ.get("VERIF_TIER", "quick"))
    ap.add_argument("--replay")
    ap.add_argument("--runs", type=int)
    ap.add_argument("--workers", type=int, default=int(os.environ.get("VERIF_WORKERS", "16")))
    ap.add_argument("--n", type=int, default=200)
    ap.add_argument("--check-id", dest="check_id")
    ap.add_argument("--budget", type=float, help="wall-clock budget in seconds for the exploration phase")
    ap.add_argument("--no-evidence", action="store_true")
    args = ap.parse_args()
    master = int(os.environ.get("VERIF_SEED", "0"))
    t0 = time.time()

    if args.check == "setup":
        sys.path.insert(0, orch.repo_path())
        import symengine, sympy, scipy, lark, numpy  # noqa
        from sim import laws, rngseam, refinterp, gen  # noqa
        print("setup ok")
        return 0

    scratch = orch.scratch_root()
    try:
        if args.check == "selftest-determinism":
            rc = 0
            for check in ([args.check_id] if args.check_id else CHECKS):
                try:
                    plugin(check)
                except ImportError:
                    continue
                for w in (4, 16):
                    diffs, n = determinism_sample(check, master + w, scratch, args.n, w, args.tier)
                    print(f"determinism {check} workers={w}: {n} seeds x2, {len(diffs)} diffs")
                    for d in diffs[:10]:
                        print("  DIFF", d)
                    if diffs:
                        rc = 2
            if rc:
                print("HARNESS-ERROR determinism self-test failed")
            return rc

        if args.check == "selftest-sensitivity":
            return sensitivity(args, scratch)
        if args.check == "selftest-benign":
            return benign(args, scratch)

        check = args.check.upper()
        if check not in CHECKS:
            print(f"unknown check {check}")
            return 2
        mod = plugin(check)
        if args.replay:
            return do_replay(check, args.replay, scratch)

        tier = args.tier
        nruns = args.runs or mod.RUNS[tier]
        batch = mod.BATCH[tier]
        hs = getattr(mod, "hashseed_for", lambda s: 0)
        runs = [{"index": i, "seed": orch.derive_seed(master, check, i)} for i in range(nruns)]
        if getattr(mod, "ONE_RUN_PER_WORLD", False):
            jobs = [orch.Job(check, [r], hs(r["seed"]), mod.TIMEOUT, {"tier": tier}) for r in runs]
        elif getattr(mod, "FIXED_BATCHES", False):
            jobs = [orch.Job(check, runs[i:i + batch], mod.batch_hashseed(runs[i]["seed"]), mod.TIMEOUT, {"tier": tier}) for i in range(0, nruns, batch)]
        else:
            jobs = [orch.Job(check, runs[i:i + batch], 0, mod.TIMEOUT, {"tier": tier}) for i in range(0, nruns, batch)]
        deadline = t0 + args.budget if args.budget else None
        print(f"[{check}] tier={tier} VERIF_SEED={master} runs={nruns} workers={args.workers} repo={orch.repo_path()}", flush=True)

        # determinism sample first: a harness that does not replay must not report anything
        dn = 8 if tier == "quick" else 48
        diffs, _ = determinism_sample(check, master ^ 0x5EED, scratch, dn, min(args.workers, 8), tier)
        if diffs:
            print(f"HARNESS-ERROR determinism self-check failed on {len(diffs)} of {dn} seeds: {diffs[:3]}")
            return 2

        results = orch.run_jobs(jobs, args.workers, scratch, deadline=deadline)
        explore_s = time.time() - t0
        results = [r for r in results if r.get("outcome") != "not_run"]

        harness = [r for r in results if r.get("outcome") in ("harness_error", "worker_died")]
        viols = [r for r in results if r.get("outcome") == "violation"]
        known = orch.load_known_findings()
        new_viols = []
        known_hits = {}
        for v in viols:
            sig = mod.finding_signature(v, v.get("case", {}))
            k = match_known(check, sig, known)
            if k is not None:
                known_hits.setdefault(k["id"], []).append(v)
            else:
                new_viols.append(v)

        rc = 0
        replay_paths = []
        replay_dir = os.environ.get("VERIF_REPLAY_DIR", os.path.join(VERIF, "replays"))
        os.makedirs(replay_dir, exist_ok=True)
        seen_classes = set()
        unreproduced = 0
        for v in new_viols:
            cls = mod.vclass(v)
            if cls in seen_classes or len(replay_paths) >= 3:
                continue
            seen_classes.add(cls)
            case = v["case"]
            hseed = int(v.get("hashseed") or hs(v.get("seed") or 0))
            sh = orch.run_single(check, {"index": 0, "mode": "shrink", "case": case}, scratch, hashseed=hseed, timeout=mod.TIMEOUT,
                                 extra={"tier": tier})
            final_case = case
            minimised = False
            if sh.get("outcome") == "shrunk":
                # confirm in a fresh interpreter
                conf = orch.run_single(check, {"index": 0, "case": sh["case"]}, scratch, hashseed=hseed, timeout=mod.TIMEOUT, extra={"tier": tier})
                if conf.get("outcome") == "violation" and mod.vclass(conf) == cls:
                    final_case = sh["case"]
                    v = dict(conf, seed=v.get("seed"))
                    minimised = True
            elif sh.get("outcome") == "not_reproduced":
                print(f"HARNESS-ERROR violation of run seed {v.get('seed')} did not reproduce in a fresh interpreter")
                unreproduced += 1
                seen_classes.discard(cls)
                continue
            path = os.path.join(replay_dir, f"{check}-{master}-{v.get('seed')}.json")
            orch.write_json(path, {"property": check, "verif_seed": master, "run_seed": v.get("seed"), "hashseed": hseed, "class": cls,
                                   "minimised": minimised, "case": final_case, "extra": {"tier": tier},
                                   "violation": {k: v.get(k) for k in ("problems", "text", "first_law_mismatch", "detail", "notes")}})
            replay_paths.append(path)
            print(f"violation: {mod.describe_violation(v)}"[:1500])
            if v.get("text"):
                print(v["text"])
            print(f"VIOLATION property={check} replay={path}")
            rc = max(rc, 1)
        if unreproduced and not replay_paths:
            rc = max(rc, 2)
        for kid, vs in known_hits.items():
            f = [x for x in known["findings"] if x["id"] == kid][0]
            print(f"KNOWN-FINDING: property={check} {f['what']} (id={kid}, {len(vs)} runs hit it)")
        if harness:
            systematic = len(harness) > max(2, len(results) // 200)
            print(f"{'HARNESS-ERROR' if systematic else 'HARNESS-WARNING'} {len(harness)} of {len(results)} runs failed inside the harness "
                  f"(counted as inconclusive); first:\n{harness[0].get('trace') or harness[0].get('log_tail')}")
            if systematic and not replay_paths:
                rc = max(rc, 2)      # a reported, replayable violation keeps exit code 1; isolated harness faults cost their runs only

        cov = mod.summarize(results, tier)
        from collections import Counter as _C
        cov["violation_classes"] = dict(_C(str(mod.vclass(v)) for v in viols))
        wall = time.time() - t0
        cov["runs_per_hour"] = int(len(results) / max(explore_s, 1e-9) * 3600)
        cov["workers"] = args.workers
        cov["timeouts_inconclusive"] = len([r for r in results if r.get("outcome") == "timeout"])
        cov["harness_faults_inconclusive"] = len(harness)
        cov["generator_faults"] = len([r for r in results if r.get("outcome") == "gen_error"])
        cov["known_findings_hit"] = {k: len(v) for k, v in known_hits.items()}
        cov["determinism_precheck"] = {"seeds_run_twice": dn, "diffs": 0}
        bad_probes = mod.probe_failures(cov) if hasattr(mod, "probe_failures") else []
        cov["probes_stuck_at_zero"] = bad_probes
        if bad_probes and tier == "thorough" and rc == 0 and not args.runs:
            print(f"HARNESS-ERROR probes stuck at zero in thorough tier: {bad_probes}")
            rc = 2
        if not args.no_evidence:
            ev = {
                "property_id": check,
                "tier": tier if tier in ("quick", "thorough") else "quick",
                "seed": master,
                "level": mod.LEVEL,
                "coverage": cov,
                "assumptions": getattr(mod, "ASSUMPTIONS", []),
                "wall_s": round(wall, 2),
                "violations": len(new_viols),
            }
            orch.write_json(os.path.join(VERIF, "evidence", f"{check}.json"), ev)
        if viols:
            print(f"violation classes: {cov['violation_classes']}")
        print(f"[{check}] {len(results)} runs in {wall:.1f}s, outcomes={cov.get('outcomes')}, violations={len(new_viols)}, "
              f"known={sum(len(v) for v in known_hits.values())}, exit={rc}")
        return rc
    finally:
        shutil.rmtree(scratch, ignore_errors=True)


if __name__ == "__main__":
    sys.exit(main())
