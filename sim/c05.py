"""C05 — executions of the normalised program as a state invariant `value in inferred type`.

Real code: parser, the complete normalisation pipeline, FiniteFixedPointTyper, and — as the executor
of the normalised IR — Polar's own Assignment.evaluate / Condition.evaluate under the scripted RNG
seam.  The invariant is checked after every single assignment of every iteration, far past the
iteration in which the loop guard becomes false.  A violation is reported only if an independent
exact evaluator of the same IR (rational arithmetic, same resolutions) reaches the same value.
"""
import hashlib
import json
import math
import random as _random
from fractions import Fraction

from . import rngseam, refinterp
from .past import render_program
from .sched import Scheduler


def _digest(obj):
    return hashlib.sha256(json.dumps(obj, sort_keys=True, default=str).encode()).hexdigest()[:16]


class FreeController:
    def __init__(self, sched):
        self.sched = sched
        self.log = []

    def request(self, law, entry):
        u = self.sched.choose(law)
        self.log.append((law, u))
        return u


def _to_frac(x):
    """symengine number -> Fraction (exact for Integer/Rational), else via float"""
    s = str(x)
    try:
        return Fraction(s)
    except (ValueError, ZeroDivisionError):
        return Fraction(float(x))


def _member(value, fvalues):
    for tv in fvalues:
        if abs(value - tv) <= 1e-9 * max(1.0, abs(tv)):
            return True
    return False


# ---------------------------------------------------------------- independent exact evaluator of the IR
class ExactIR:
    """Evaluates Polar's normalised IR without Assignment.evaluate / Condition.evaluate: reads the
    fields of the objects and computes with exact rationals (symengine used as a polynomial
    substitution library only)."""

    def __init__(self):
        from symengine.lib.symengine_wrapper import sympify, Symbol
        self.sympify = sympify
        self.Symbol = Symbol

    def poly(self, expr, st):
        sub = {self.Symbol(k): self.sympify(f"{v.numerator}/{v.denominator}") for k, v in st.items()}
        r = expr.subs(sub) if hasattr(expr, "subs") else self.sympify(expr)
        if not r.is_Number:
            raise KeyError(f"unbound symbols in {expr}")
        if r.is_Rational or r.is_Integer:
            return _to_frac(r)
        return Fraction(float(r))

    def cond(self, c, st):
        n = type(c).__name__
        if n == "TrueCond":
            return True
        if n == "FalseCond":
            return False
        if n == "Atom":
            a = self.poly(c.poly1, st)
            b = self.poly(c.poly2, st)
            return refinterp._cmp(a, c.cop, b)
        if n == "Not":
            return not self.cond(c.cond, st)
        if n == "And":
            return self.cond(c.cond1, st) and self.cond(c.cond2, st)
        if n == "Or":
            return self.cond(c.cond1, st) or self.cond(c.cond2, st)
        raise ValueError(n)

    def assign(self, a, st, draws):
        """draws: iterator over the values returned at the seam for this run (same resolutions)"""
        var = str(a.variable)
        if self.cond(a.condition, st):
            n = type(a).__name__
            if n == "PolyAssignment":
                vals = [self.poly(p, st) for p in a.polynomials]
                probs = [self.poly(p, st) for p in a.probabilities]
                acc = {}
                for v, p in zip(vals, probs):
                    if p > 0:
                        acc[v] = acc.get(v, 0) + p
                if len(acc) == 1:
                    value = next(iter(acc))
                else:
                    law, u = next(draws)
                    pts = sorted(acc.items())
                    value = pts[law.outcome_index(u)][0]
            elif n == "DistAssignment":
                law, u = next(draws)
                q = law.quantile(u)
                value = Fraction(q)
                if type(a.distribution).__name__ == "Beta":
                    value = value * self.poly(a.distribution.scale, st)
            elif n == "FunctionalAssignment":
                arg = float(self.poly(a.argument, st))
                value = Fraction({"Sin": math.sin, "Cos": math.cos, "Exp": math.exp}[a.func](arg))
            else:
                raise ValueError(n)
            via_default = False
        else:
            value = st[str(a.default)]
            via_default = True
        st[var] = value
        return value, via_default


def run_case(case):
    from inputparser import Parser
    from program import normalize_program
    from program.type import Finite
    from symengine.lib.symengine_wrapper import Symbol
    import settings
    import utils.identifiers as ident

    ident._count_unique_var = 0
    prog = case["prog"]
    text = render_program(prog, case.get("style", "frac"), case.get("explicit_last", True))
    out = {"outcome": "ok", "text": text, "notes": [], "fp_iterations": case["fp_iterations"]}
    saved = (settings.type_fp_iterations, settings.transform_categoricals)
    settings.type_fp_iterations = case["fp_iterations"]
    settings.transform_categoricals = bool(case.get("transform_categoricals"))
    out["transform_categoricals"] = bool(case.get("transform_categoricals"))
    out["symbolic"] = bool(case.get("symvals"))
    try:
        try:
            program = normalize_program(Parser().parse_string(text))
        except Exception as e:  # noqa
            out["outcome"] = "polar_refused"
            out["error"] = f"{type(e).__name__}: {e}"[:300]
            return out
    finally:
        settings.type_fp_iterations, settings.transform_categoricals = saved
    declared = {t[0] for t in prog.get("types", [])}
    ftypes = {}
    for v, t in program.typedefs.items():
        if isinstance(t, Finite) and str(v) not in declared:
            try:
                ftypes[str(v)] = sorted(float(x) for x in t.values)
            except Exception:  # noqa
                pass
    out["typed"] = {k: v for k, v in sorted(ftypes.items())}
    # consequence clause of the property: rewriting a power of a finitely typed variable through its value set must give a
    # polynomial that agrees with the power on every value of the set (checked on the Finite objects the analysis will use)
    pr_problems = []
    try:
        from symengine.lib.symengine_wrapper import sympify as _sy
        for v, t in program.typedefs.items():
            if not isinstance(t, Finite):
                continue
            vals = list(t.values)
            for pw in range(0, len(vals) + 3):
                red = _sy(t.reduce_power(pw))
                for val in vals:
                    lhs = red.subs({t.variable: val}) if hasattr(red, "subs") else red
                    if (_sy(lhs) - _sy(val) ** pw).expand() != 0:
                        pr_problems.append({"var": str(v), "power": pw, "value": str(val), "reduced": str(red), "values": sorted(map(str, vals))})
                        break
                if pr_problems and pr_problems[-1]["var"] == str(v):
                    break
    except Exception as e:  # noqa
        out["notes"].append(f"power-reduction oracle not applicable: {type(e).__name__}")
    out["power_reductions_checked"] = True
    # ... and rewriting a *comparison* of such a variable through its value set must keep its truth value on every value of
    # the set (atoms v op c and their negations are normalised by the real code and evaluated before / after)
    try:
        from program.condition import Atom, Not
        from symengine.lib.symengine_wrapper import Symbol as _Sym
        checked = 0
        for v, t in program.typedefs.items():
            if not isinstance(t, Finite) or checked >= 4:
                continue
            try:
                fvals = sorted(float(x) for x in t.values)
            except Exception:  # noqa
                continue
            consts = sorted({int(math.floor(fvals[0])) - 1, int(math.ceil(fvals[-1])) + 1} | {int(round(x)) for x in fvals})
            checked += 1
            for cop in ("==", "<=", ">=", "<", ">"):
                for c in consts:
                    for negate in (False, True):
                        orig = Atom(str(v), cop, str(c))
                        cond = Not(orig.copy()) if negate else orig.copy()
                        normalized, failed = cond.get_normalized(program)
                        if failed:
                            continue
                        for val in fvals:
                            st = {_Sym(str(v)): val}
                            want = orig.evaluate(st) != negate
                            got = normalized.evaluate(st)
                            if bool(want) != bool(got):
                                pr_problems.append({"var": str(v), "power": f"{'!' if negate else ''}({v} {cop} {c})", "value": str(val),
                                                    "reduced": str(normalized), "values": [str(x) for x in fvals], "comparison": True})
                                break
                        if pr_problems and pr_problems[-1].get("comparison") and pr_problems[-1]["var"] == str(v):
                            break
    except Exception as e:  # noqa
        out["notes"].append(f"comparison-rewriting oracle not applicable: {type(e).__name__}")
    out["normalized"] = str(program)
    kinds = {"old": 0, "alias": 0, "r": 0, "t": 0, "c": 0, "orig": 0}
    for k in ftypes:
        if k.startswith("_old"):
            kinds["old"] += 1
        elif k.startswith("_r"):
            kinds["r"] += 1
        elif k.startswith("_t") and k[2:].isdigit():
            kinds["t"] += 1
        elif k.startswith("_c") and k[2:].isdigit():
            kinds["c"] += 1
        elif k.startswith("_"):
            kinds["alias"] += 1
        else:
            kinds["orig"] += 1
    out["typed_kinds"] = kinds
    body_vars = [str(a.variable) for a in program.loop_body]
    untyped_assigned = [v for v in body_vars if v not in ftypes]
    out["untyped"] = len(untyped_assigned)

    symvals = {k: Fraction(v) for k, v in case.get("symvals", {}).items()}
    uninit = set(case.get("uninitialised") or [])
    rngseam.install(case.get("seed", 0))
    rng = _random.Random(case.get("seed", 0))
    iters = case["iterations"]
    observed = set()
    violations = []
    guard_false_iters = 0
    total_iters = 0
    scripts = []
    path_sigs = set()
    policies = case.get("policies") or ["mixed"]
    given_scripts = case.get("scripts")
    nruns = len(given_scripts) if given_scripts is not None else case["runs"]
    exact = ExactIR()
    eval_errors = 0
    shape_counts = {}
    for ri in range(nruns):
        sched = Scheduler(rng, policies[ri % len(policies)], given_scripts[ri] if given_scripts is not None else None)
        ctl = FreeController(sched)
        rngseam.set_controller(ctl)
        state = {Symbol(k): float(v) for k, v in symvals.items()}
        steps = []   # (phase, iteration, index, assignment, cond_true, value)
        def step(phase, it, i, a, gf):
            # one assignment of the IR, executed by Polar's own evaluator.  An assignment that cannot be
            # evaluated (it reads a variable that holds no value yet, e.g. the self-default of a temporary
            # in an iteration in which the guard is already false) leaves its variable unset.
            nonlocal state, eval_errors
            try:
                ct = a.condition.evaluate(state)
                if still_initial:
                    # a typed variable without initial assignment that still holds its (generic) initial value is *read* here:
                    # by the condition, and by the right side or the default, whichever is used
                    try:
                        reads = {str(x) for x in a.condition.get_free_symbols()}
                        if ct:
                            reads |= {str(x) for x in a.get_free_symbols(with_condition=False, with_default=False)}
                        else:
                            reads.add(str(a.default))
                    except Exception:  # noqa
                        reads = set()
                    for nm in sorted(reads & still_initial):
                        val0 = state.get(Symbol(nm))
                        if val0 is not None and not _member(val0, ftypes[nm]):
                            read_viol.append((phase, it, i, a, nm, val0, gf, "condition" if nm in {str(x) for x in a.condition.get_free_symbols()} else "right side"))
                state = a.evaluate(state)
                if ct:
                    still_initial.discard(str(a.variable))
            except rngseam.NoController:
                raise
            except Exception as e:  # noqa
                eval_errors += 1
                skipped.add((phase, it, i))
                if eval_errors == 1:
                    out["notes"].append(f"assignment skipped: {type(e).__name__}: {str(e)[:120]}")
                return
            steps.append((phase, it, i, a, ct, state[a.variable], gf))

        skipped = set()
        still_initial = {v for v in uninit if v in ftypes}
        read_viol = []
        try:
            for i, a in enumerate(program.initial):
                step("init", -1, i, a, False)
            for it in range(iters):
                gf = _source_guard_false(prog, state, symvals)
                total_iters += 1
                if gf:
                    guard_false_iters += 1
                for i, a in enumerate(program.loop_body):
                    step("body", it, i, a, gf)
        finally:
            rngseam.set_controller(None)
        scripts.append(list(sched.used))
        path_sigs.add(_digest([round(u, 12) for u in sched.used]))
        run_viol = []
        tainted = set()     # variables that currently hold an out-of-type value that arrived in the shape of known finding F3
        downstream = set()  # violating steps that merely compute with such a value after guard exit
        for st in steps:
            a = st[3]
            name = str(a.variable)
            val = st[5]
            if name in ftypes:
                observed.add((name, round(val, 9)))
                if not _member(val, ftypes[name]):
                    run_viol.append(st)
                    is_generic = any(abs(float(sv) - val) <= 1e-9 * max(1.0, abs(val)) for k, sv in symvals.items() if k in uninit)
                    if st[6] and is_generic:
                        tainted.add(name)
                    elif st[6] and st[4]:
                        try:
                            used = {str(x) for x in a.get_free_symbols(with_condition=False, with_default=False)}
                        except Exception:  # noqa
                            used = set()
                        if used & tainted:
                            downstream.add((st[0], st[1], st[2]))
                            tainted.add(name)
                    continue
            tainted.discard(name)
        for (phase, it, i, a, nm, val0, gf, where) in read_viol:
            shape = ("read", bool(gf))
            shape_counts[shape] = shape_counts.get(shape, 0) + 1
            if shape_counts[shape] > 2:
                continue
            # the value is the literal initial value the case supplies: nothing to confirm
            violations.append({"var": nm, "value": val0, "type": ftypes[nm], "phase": phase, "iteration": it, "stmt": i, "assignment": str(a),
                               "via_default": False, "default_is_other_var": False, "source_guard_false": bool(gf), "downstream_of_f13": False,
                               "no_initial_value": True, "is_generic_initial_value": True, "run": ri, "confirmed": True,
                               "kind": "read-before-assignment", "read_in": where, "exact_value": str(symvals.get(nm))})
        if run_viol:
            # confirmation by the independent exact evaluator with the same resolutions
            conf = _confirm(exact, program, symvals, iters, ctl.log, skipped)
            for st in run_viol:
                a = st[3]
                shape = (not st[4], bool(st[6]), str(a.default) != str(a.variable))
                if (st[0], st[1], st[2]) in downstream:
                    shape = ("downstream",)
                shape_counts[shape] = shape_counts.get(shape, 0) + 1
                if shape_counts[shape] > 2:
                    continue
                key = (st[0], st[1], st[2])
                c = conf.get(key)
                rec = {
                    "var": str(a.variable), "value": st[5], "type": ftypes[str(a.variable)], "phase": st[0], "iteration": st[1],
                    "stmt": st[2], "assignment": str(a), "via_default": not st[4],
                    "default_is_other_var": str(a.default) != str(a.variable),
                    "source_guard_false": bool(st[6]),
                    "downstream_of_f13": key in downstream,
                    "no_initial_value": str(a.variable) in symvals,
                    "is_generic_initial_value": any(abs(float(sv) - st[5]) <= 1e-9 * max(1.0, abs(st[5])) for k, sv in symvals.items() if k in uninit),
                    "run": ri,
                }
                if c is None:
                    rec["confirmed"] = False
                    rec["confirm_note"] = conf.get("error", "exact evaluator did not reach this step")
                else:
                    rec["confirmed"] = abs(float(c[0]) - st[5]) <= 1e-9 * max(1.0, abs(st[5])) and not _member(float(c[0]), ftypes[str(a.variable)])
                    rec["exact_value"] = str(c[0])
                violations.append(rec)
    # ---- source-level oracle: the *source program*, run by the reference interpreter on paths of its own, never leaves
    # the inferred types of its original variables either (the IR execution above cannot see a normalisation pass that
    # changes what the program computes before the types are inferred)
    src_checked = 0
    orig_typed = sorted(v for v in ftypes if not v.startswith("_"))
    if orig_typed and given_scripts is None and not case.get("no_source_oracle"):
        src_rng = _random.Random(case.get("seed", 0) + 4711)
        src_prog = json.loads(json.dumps(prog))

        def _subst_probs(stmts):
            # symbolic probabilities of choices are written as the constant's name: the reference needs their value
            for stt in stmts:
                if stt[0] == "assign" and stt[2][0] == "choice":
                    for item in stt[2][1]:
                        if isinstance(item[1], str) and item[1] in symvals:
                            item[1] = str(symvals[item[1]])
                elif stt[0] == "if":
                    for _, br in stt[1]:
                        _subst_probs(br)
                    if stt[2] is not None:
                        _subst_probs(stt[2])

        _subst_probs(src_prog["init"])
        _subst_probs(src_prog["body"])
        for sri in range(min(nruns, 6)):
            sched = Scheduler(src_rng, policies[sri % len(policies)])
            st = {k: Fraction(v) for k, v in symvals.items()}

            def drive(g):
                try:
                    req = next(g)
                    while True:
                        req = g.send(sched.choose(req))
                except StopIteration as stop:
                    return stop.value

            def check(it, gf):
                nonlocal src_checked
                for v in orig_typed:
                    if v not in st or (it < 0 and v in uninit):
                        continue
                    src_checked += 1
                    val = float(st[v])
                    if _member(val, ftypes[v]):
                        continue
                    shape = ("source", bool(gf))
                    shape_counts[shape] = shape_counts.get(shape, 0) + 1
                    if shape_counts[shape] > 2:
                        continue
                    violations.append({"var": v, "value": val, "type": ftypes[v], "phase": "source", "iteration": it, "stmt": -1,
                                       "assignment": "(source program run by the reference interpreter)", "via_default": False,
                                       "default_is_other_var": False, "source_guard_false": bool(gf), "downstream_of_f13": False,
                                       "no_initial_value": v in uninit, "run": sri, "confirmed": True, "kind": "source-value-out-of-type",
                                       "is_generic_initial_value": any(Fraction(sv) == st[v] for k, sv in symvals.items() if k in uninit),
                                       "exact_value": str(st[v])})
            try:
                refinterp.INDEX_CHOICES[0] = False
                drive(refinterp.exec_stmts(src_prog["init"], st))
                check(-1, False)
                for it in range(iters):
                    holds = refinterp.eval_cond(src_prog["guard"], st)
                    if holds:
                        drive(refinterp.exec_stmts(src_prog["body"], st))
                    check(it, not holds)
            except (refinterp.Inconclusive, refinterp.RefRefuses, ZeroDivisionError, OverflowError, KeyError, ValueError):
                continue
    out["source_values_checked"] = src_checked
    out["runs"] = nruns
    out["scripts"] = scripts
    out["observed_triples"] = len(observed)
    out["guard_false_iterations"] = guard_false_iters
    out["iterations_total"] = total_iters
    out["eval_errors"] = eval_errors
    out["path_sigs"] = len(path_sigs)
    out["digest"] = _digest({"typed": out["typed"], "scripts": scripts, "obs": sorted(observed)})
    confirmed = [v for v in violations if v.get("confirmed")]
    unconfirmed = [v for v in violations if not v.get("confirmed")]
    if unconfirmed and not confirmed:
        out["notes"].append("value outside type according to Assignment.evaluate only; exact evaluator disagrees (evaluator-side note, not a C05 violation)")
        out["unconfirmed"] = unconfirmed[:2]
    if confirmed:
        out["outcome"] = "violation"
        out["problems"] = confirmed[:8]
    if pr_problems:
        out["outcome"] = "violation"
        out["problems"] = [dict(p, kind="power-reduction", via_default=False, source_guard_false=False, default_is_other_var=False,
                                assignment="(power reduction)", type=p["values"], phase="typing", iteration=-1, exact_value=None)
                           for p in pr_problems[:3]] + out.get("problems", [])
    return out


def _source_guard_false(prog, state, symvals):
    """truth of the *source* loop guard on the original variables (independent of Polar's IR conditions)"""
    st = dict(symvals)
    for k, v in state.items():
        try:
            st[str(k)] = Fraction(float(v))
        except (ValueError, OverflowError):
            return False
    try:
        return not refinterp.eval_cond(effective_guard(prog), st)
    except Exception:  # noqa
        return False


def effective_guard(prog):
    """`while g: if c: S end end` (single branch, no else, nothing else in the body) freezes the state
    as soon as g && c is false, exactly like a loop with guard g && c; Polar treats it as such."""
    g = prog["guard"]
    body = prog["body"]
    while len(body) == 1 and body[0][0] == "if" and len(body[0][1]) == 1 and body[0][2] is None:
        g = ["and", g, body[0][1][0][0]]
        body = body[0][1][0][1]
    return g


def _confirm(exact, program, symvals, iters, draw_log, skipped):
    res = {}
    st = dict(symvals)
    draws = iter(draw_log)
    try:
        for i, a in enumerate(program.initial):
            if ("init", -1, i) in skipped:
                continue
            v, vd = exact.assign(a, st, draws)
            res[("init", -1, i)] = (v, vd)
        for it in range(iters):
            for i, a in enumerate(program.loop_body):
                if ("body", it, i) in skipped:
                    continue
                v, vd = exact.assign(a, st, draws)
                res[("body", it, i)] = (v, vd)
    except StopIteration:
        res["error"] = "exact evaluator requested more draws than the run made"
    except Exception as e:  # noqa
        res["error"] = f"{type(e).__name__}: {e}"[:200]
    return res
