"""World execution for the session simulator.

`run_history` executes a recorded op list (sessions x steps x perturbations) inside the current
interpreter; `run_unit` executes one reference unit alone.  Both are meant to be called in a child
forked from a *pristine template* (Polar imported, nothing analysed: counter 0, empty caches,
default settings), see `fork_call`.
"""
import hashlib
import json
import os
import pickle
import signal
import sys
import time
import traceback

from . import seams
from .sessions import make_session, run_step


def preload():
    """import everything a session may need, without analysing anything"""
    import settings  # noqa
    import polar  # noqa
    import cli.actions  # noqa
    import cli.common  # noqa
    import invariants  # noqa
    import recurrences.solver  # noqa
    import program  # noqa
    import inputparser  # noqa
    import sympy  # noqa
    seams.discover_caches()


def fork_call(fn, arg, timeout):
    """run fn(arg) in a forked child; returns its (JSON-able) result or {"status": "child_timeout"/"child_died"}"""
    r, w = os.pipe()
    pid = os.fork()
    if pid == 0:
        os.close(r)
        code = 0
        try:
            try:
                res = fn(arg)
            except BaseException:  # noqa
                res = {"status": "harness_error", "trace": traceback.format_exc()[-3000:]}
            data = json.dumps(res, default=str).encode()
            with os.fdopen(w, "wb") as f:
                f.write(data)
        except BaseException:  # noqa
            code = 3
        finally:
            os._exit(code)
    os.close(w)
    chunks = []
    deadline = time.time() + timeout
    import select
    with os.fdopen(r, "rb") as f:
        fd = f.fileno()
        os.set_blocking(fd, False)
        while True:
            left = deadline - time.time()
            if left <= 0:
                try:
                    os.kill(pid, signal.SIGKILL)
                except OSError:
                    pass
                os.waitpid(pid, 0)
                return {"status": "child_timeout"}
            rd, _, _ = select.select([fd], [], [], min(left, 1.0))
            if rd:
                b = f.read()
                if b:
                    chunks.append(b)
                elif b == b"":
                    break
    os.waitpid(pid, 0)
    if not chunks:
        return {"status": "child_died"}
    try:
        return json.loads(b"".join(chunks).decode())
    except ValueError:
        return {"status": "child_died"}


def apply_perturbation(p, log):
    k = p["kind"]
    if k == "counter":
        cur = seams.counter_get()
        if p["mode"] == "add":
            seams.counter_set(cur + p["k"])
        elif p["mode"] == "at_least":
            if cur < p["v"]:
                seams.counter_set(p["v"])
        log.append(("counter", cur, seams.counter_get()))
    elif k == "cache_flush":
        names = seams.cache_names()
        sel = None if p.get("all") else [names[i % len(names)] for i in p["idx"]]
        occ = sum(v for v in seams.cache_occupancy().values() if v > 0)
        n = seams.cache_flush(sel)
        log.append(("cache_flush", n, occ))
    elif k == "gc":
        log.append(("gc", seams.gc_collect()))
    elif k == "rng":
        seams.rng_churn(p["k"])
        log.append(("rng", p["k"]))
    elif k == "settings_scramble":
        # another user of the process left arbitrary options behind; the owning session re-applies its own
        seams.apply_options(p["vec"])
        log.append(("settings_scramble",))
    else:
        raise ValueError(k)


def run_history(history):
    import random as _random
    import numpy as np

    cap = history.get("step_cap", 60)
    wf = history.get("world_flags", {})
    _random.seed(history.get("rng_seed", 0))
    np.random.seed(history.get("rng_seed", 0) % (2**32))
    if wf.get("cache_shrink"):
        seams.cache_shrink(wf["cache_shrink"])
    seams.knobs_default()
    sessions = [make_session(s) for s in history["sessions"]]
    results = []
    knob_canaries_left = 1
    fired = {}
    monitors = []
    contexts = []
    programs_seen = []
    prev_kind = None
    hits0 = seams.cache_hits()
    last_sid = None
    canaries_left = 2
    for op in history["ops"]:
        plog = []
        for p in op.get("pre", []):
            apply_perturbation(p, plog)
            fired[p["kind"]] = fired.get(p["kind"], 0) + 1
        sess = sessions[op["sid"]]
        ctx = {
            "opts": sorted((sess.spec.get("options") or {}).items()),
            "flag": seams.class_flag(),
            "counter_bucket": min(seams.counter_get(), 2000) // 8,
            "occ": sorted((k, min(v, 4)) for k, v in seams.cache_occupancy().items() if v > 0),
            "seen": sorted(programs_seen),
            "prev": prev_kind,
        }
        contexts.append(hashlib.sha256(json.dumps(ctx, sort_keys=True, default=str).encode()).hexdigest()[:12])
        kw = {}
        if sess.spec["kind"] == "cli" and op.get("between"):
            between = op["between"]

            def hook(idx, between=between, plog=plog):
                # between two benchmark files of one CLI call: only state Polar itself keeps is perturbed
                # (the options are whatever argparse wrote once at start-up and stay untouched)
                for p in between.get(str(idx), []):
                    if p["kind"] == "settings_scramble":
                        continue
                    apply_perturbation(p, plog)
                    fired[p["kind"]] = fired.get(p["kind"], 0) + 1

            kw["between"] = hook
        scrambled = any(p["kind"] == "settings_scramble" for p in op.get("pre", []))
        knobs0 = seams.knobs()
        res = run_step(sess, op["step"], cap, apply=(last_sid != op["sid"] or scrambled), **kw)
        last_sid = op["sid"]
        knobs1 = seams.knobs()
        if knobs1 != knobs0:
            res["knobs_changed"] = {k: [knobs0[k], knobs1[k]] for k in knobs0 if knobs0[k] != knobs1[k]}
            if knob_canaries_left > 0 and res["status"] in ("ok", "refused"):
                # the step changed an interpreter-global setting: what the next user of the process would see
                knob_canaries_left -= 1
                res["knob_canary"] = run_knob_canaries(cap)
                last_sid = None      # the canaries applied their own (default) options
        res["plog"] = plog
        res["settings_as_owned"] = _owned(sess)
        cli_sets_options = sess.spec["kind"] == "cli" and any(str(a).lstrip("-") in seams.OPTION_DEFAULTS for a in sess.spec.get("argv", []))
        if not res["settings_as_owned"] and not cli_sets_options and res["status"] in ("ok", "refused") and canaries_left > 0:
            # Polar itself changed a global option during this step.  What a user who set the options once would see next:
            # a small fixed analysis performed right now, without touching the options again.
            canaries_left -= 1
            res["canary"] = run_canaries(cap)
            res["canary_options"] = sess.spec.get("options") or {}
        results.append(res)
        if op["step"] in ("parse", "file:0", "main"):
            programs_seen.append(sess.spec.get("pid", op["sid"]))
        prev_kind = f"{sess.spec['kind']}:{op['step'].split(':')[0]}:{res['status']}"
        monitors.append({"truecond_clean": seams.shared_truecond_clean()})
        if res["status"] == "timeout":
            # a torn analysis is outside the property: stop the world here
            break
    return {"status": "done", "results": results, "fired": fired, "monitors": monitors, "contexts": contexts,
            "cache_hits": seams.cache_hits() - hits0, "counter_end": seams.counter_get(), "hashseed": os.environ.get("PYTHONHASHSEED")}


CANARIES = [
    {"kind": "lib", "program": {"path": "documentation/loops/fibonacci.prob"}, "goals": [{"monom": "a", "kind": "raw"}], "api": "common"},
    {"kind": "lib", "program": {"path": "documentation/loops/geometric.prob"}, "goals": [{"monom": "x", "kind": "raw"}], "api": "common"},
    {"kind": "lib", "program": {"path": "tests/benchmarks/mixed_trigonometric.prob"}, "goals": [{"monom": "a1", "kind": "raw"}], "api": "common"},
    {"kind": "lib", "program": {"path": "tests/benchmarks/else_transformation.prob"}, "goals": [{"monom": "x", "kind": "raw"}], "api": "common"},
]


# analyses whose *outcome* depends on an interpreter-global knob: run right after a step that changed one
KNOB_CANARIES = [
    # prints 3**12000 (5726 digits) through the cumulant printer: refused under the default integer-text limit
    {"kind": "action", "files": [{"text": "x = 1\nwhile true:\n    x = 3*x\nend\n"}], "namespace": {"goals": ["k1(x)"], "at_n": 12000}, "options": {}},
    # 200 nested if-statements: normalisation recurses past the default recursion limit
    {"kind": "lib", "program": {"text": "x = 0\nf = 0\nwhile true:\n    f = Bernoulli(1/2)\n" + "    if f == 1:\n" * 200 + "    x = x + 1\n" + "    end\n" * 200 + "end\n"},
     "goals": [{"monom": "x", "kind": "raw"}], "api": "common"},
]


def run_knob_canaries(cap):
    out = []
    for spec in KNOB_CANARIES:
        s = make_session(dict(spec))
        steps = {}
        for i, name in enumerate(s.step_names()):
            steps[name] = run_step(s, name, cap, apply=(i == 0))
        out.append(steps)
    return out


def run_canaries(cap):
    out = []
    for spec in CANARIES:
        s = make_session(dict(spec, options={}))
        steps = {}
        for name in s.step_names():
            steps[name] = run_step(s, name, cap, apply=False)
        out.append(steps)
    return out


def _owned(sess):
    """do the global options still equal the vector of the session that just ran? (cause hint only)"""
    full = dict(seams.OPTION_DEFAULTS)
    full.update(sess.spec.get("options") or {})
    return seams.read_options() == full


def run_unit(unit):
    """a reference unit: one session spec executed alone, all steps in order, no perturbation"""
    import random as _random
    import numpy as np

    _random.seed(0)
    np.random.seed(0)
    seams.knobs_default()
    sess = make_session(unit["spec"])
    out = {}
    for i, name in enumerate(sess.step_names()):
        out[name] = run_step(sess, name, unit.get("step_cap", 60), apply=(i == 0))
        if out[name]["status"] == "timeout":
            break
    return {"status": "done", "steps": out, "hashseed": os.environ.get("PYTHONHASHSEED")}
