"""C05 plug-in."""
import copy
import random as _random

from . import gen
from .check_c12 import _stmt_paths, _get_list

PROPERTY = "C05"
BATCH = {"quick": 20, "thorough": 30}
RUNS = {"quick": 1200, "thorough": 40000}
TIMEOUT = 900
LEVEL = "exploration"
ASSUMPTIONS = [
    "the normalised IR is executed with the sequential guarded-assignment semantics its printed form denotes",
    "sim/c05.py ExactIR (independent exact evaluator) and the source-guard evaluation in sim/refinterp.py are trusted",
    "user-declared types are taken as given (the generator only declares types that are true)",
]


def gen_case(seed, extra=None):
    rng = _random.Random(seed)
    first = _gen_one(rng, seed)
    if rng.random() < 0.2:
        # several programs normalised and typed one after the other in the same interpreter
        seq = [first]
        for i in range(rng.choice([1, 1, 2])):
            g2i = gen.guard_to_if(first["prog"], rng) if rng.random() < 0.35 else None
            if g2i is not None:
                # the same assignments with the loop guard turned into an ordinary branch
                c = copy.deepcopy(first)
                c["prog"] = g2i
                c["seed"] = seed + 1 + i
                seq.append(c)
            elif rng.random() < 0.5:
                # the same loop with other initial values
                c = copy.deepcopy(first)
                declared = {t[0] for t in c["prog"].get("types", [])}    # declared types are taken as given: keep them true
                for st in c["prog"]["init"]:
                    # flags (0/1 initialised) keep their value: squaring templates applied to a "flag" holding 3 make the
                    # value sets explode and Polar's typer run for minutes
                    if st[0] == "assign" and st[2][0] == "num" and st[1] not in declared and st[2][1] not in ("0", "1"):
                        st[2] = gen.num(rng.choice([0, 1, 2, 3, 5, -1, -3]))
                c["seed"] = seed + 1 + i
                seq.append(c)
            else:
                seq.append(_gen_one(rng, seed + 1 + i))
        side = _random.Random(f"sibling|{seed}")
        if side.random() < 0.35 and not first["prog"].get("types"):
            # a sibling of the first program (same names and conditions, other values / parameters) right after it
            sib = gen.sibling(first["prog"], side)
            if sib is not None:
                c = copy.deepcopy(first)
                c["prog"] = sib
                c["seed"] = seed + 7
                seq.insert(1, c)
        return {"kind": "sequence", "cases": seq, "seed": seed}
    return first


def _gen_one(rng, seed):
    if rng.random() < 0.08:
        fp = rng.choice([1, 1, 2, 2, 3])
        prog = gen.delay_line_c05(rng, fp + rng.choice([0, 1, 1, 2]))
        return {"kind": "ir-exec", "prog": prog, "symvals": {}, "transform_categoricals": False, "fp_iterations": fp,
                "iterations": rng.choice([6, 8, 10]), "runs": 4, "policies": ["mixed"], "seed": seed, "style": "frac", "explicit_last": True}
    side = _random.Random(f"late|{seed}")
    prog = gen.gen_c05_program(rng)
    r_side = side.random()
    if r_side < 0.05:
        prog = gen.late_init_c05(side)
    elif r_side < 0.08:
        prog = gen.double_init_constant_c05(side)
    symvals = {}
    if rng.random() < 0.25 and gen.symbolise(prog, rng, "p"):
        symvals["p"] = rng.choice(["1/3", "1/2", "3/4", "1/10"])
    uninit = prog.pop("uninitialised", [])
    for v in uninit:
        symvals[v] = rng.choice(["7/3", "-11/5", "13/2"])      # a generic initial value for a variable that has none
    return {
        "kind": "ir-exec",
        "prog": prog,
        "symvals": symvals,
        "uninitialised": list(uninit),
        "transform_categoricals": rng.random() < 0.25,
        "fp_iterations": rng.choice([0, 1, 2, 3, 5, 8, 100, 100, 100, 100, 100, 100]),
        "iterations": rng.choice([3, 4, 6, 8, 12]),
        "runs": rng.choice([8, 12, 20]),
        "policies": rng.choice([["mixed"], ["coverage", "adversarial", "uniform"], ["coverage"], ["adversarial", "coverage"]]),
        "seed": seed,
        "style": rng.choice(["frac", "frac", "decimal", "minimal"]),
        "explicit_last": rng.random() < 0.5,
    }


def _run_in_child(case):
    from . import c05

    if case["kind"] == "sequence":
        subs = [c05.run_case(c) for c in case["cases"]]
        bad = [i for i, x in enumerate(subs) if x.get("outcome") == "violation"]
        # a violation of known shape in an earlier program must not hide another one in a later program
        pick = None
        for i in bad:
            if not all(_is_f13(p) for p in subs[i].get("problems", [])):
                pick = i
                break
        if pick is None and bad:
            pick = bad[0]
        r = dict(subs[pick] if pick is not None else subs[-1])
        r["sub_outcomes"] = [x.get("outcome") for x in subs]
        r["violating_index"] = pick
        r["sequence_len"] = len(subs)
        for k in ("observed_triples", "runs", "iterations_total", "guard_false_iterations", "path_sigs", "eval_errors"):
            r[k] = sum(x.get(k, 0) for x in subs)
        r["digest"] = c05._digest([x.get("digest") for x in subs])
        r["scripts_by_case"] = [x.get("scripts") for x in subs]
        if pick is None:
            oks = [x for x in subs if x.get("outcome") == "ok"]
            r["outcome"] = "ok" if oks else subs[-1].get("outcome")
            if oks:
                r["typed"] = oks[0].get("typed")
                r["text"] = oks[0].get("text")
    else:
        r = c05.run_case(case)
    r["kind"] = case["kind"]
    return r


_preloaded = False


def run_case(case, extra=None):
    """every case runs in a child forked from the pristine worker: no state of Polar survives from one case to the next"""
    global _preloaded
    from . import world
    if not _preloaded:
        import inputparser, program, type_inference, program.distribution  # noqa
        from . import c05, rngseam  # noqa
        _preloaded = True
    r = world.fork_call(_run_in_child, case, timeout=90)
    if r.get("status") in ("child_timeout", "child_died"):
        return {"outcome": "timeout" if r["status"] == "child_timeout" else "harness_error", "kind": case["kind"], "trace": r["status"]}
    if r.get("status") == "harness_error":
        return {"outcome": "harness_error", "kind": case["kind"], "trace": r.get("trace")}
    return r


def _sig(p):
    return (bool(p.get("via_default")), bool(p.get("source_guard_false")), bool(p.get("default_is_other_var")))


def _is_f13(p):
    """known finding F13: while the loop guard is false a variable *without initial assignment* (or an intermediate version /
    alias that receives its value) holds the variable's symbolic initial value, which no inferred type contains"""
    return bool(p.get("source_guard_false") and (p.get("is_generic_initial_value") or p.get("downstream_of_f13")))


def _lead(res):
    """the problem that names the violation: one that does not have the shape of known finding F13, if there is any"""
    ps = res["problems"]
    for p in ps:
        if not _is_f13(p):
            return p
    return ps[0]


def vclass(res):
    if res.get("outcome") != "violation":
        return None
    if _lead(res).get("kind") == "power-reduction":
        return "power-reduction"
    return "out-of-type:" + ",".join(str(int(b)) for b in _sig(_lead(res)))


def finding_signature(res, case):
    # a run counts as the known finding only if *every* reported out-of-type value has its shape
    ps = res.get("problems", [])
    return {"only_uninitialised_initial_value_after_guard_exit": bool(ps) and all(_is_f13(p) for p in ps)}


def describe_violation(res):
    p = _lead(res)
    if p.get("kind") == "power-reduction" and p.get("comparison"):
        return (f"comparison {p['power']} over the value set {p['values']} of {p['var']} is rewritten to `{p['reduced']}`, which has another truth "
                f"value at {p['var']} = {p['value']}\nnormalised program:\n{res.get('normalized')}")
    if p.get("kind") == "power-reduction":
        return (f"power {p['power']} of variable {p['var']} (values {p['values']}) is rewritten to `{p['reduced']}`, which differs from "
                f"the power at value {p['value']}\nnormalised program:\n{res.get('normalized')}")
    return (f"variable {p['var']} holds {p['value']} outside inferred type {p['type']} at {p['phase']} iteration {p['iteration']} "
            f"stmt `{p['assignment']}` (via_default={p['via_default']}, source guard false={p['source_guard_false']}, "
            f"default is other var={p['default_is_other_var']}); exact evaluator: {p.get('exact_value')}\nnormalised program:\n{res.get('normalized')}")


def _variants(case):
    if case["kind"] == "sequence":
        cs = case["cases"]
        for i in range(len(cs)):
            if len(cs) > 1:
                c = copy.deepcopy(case)
                del c["cases"][i]
                yield c["cases"][0] if len(c["cases"]) == 1 else c
        return
    if case["iterations"] > 1:
        for it in (1, 2, case["iterations"] // 2, case["iterations"] - 1):
            if 1 <= it < case["iterations"]:
                c = copy.deepcopy(case)
                c["iterations"] = it
                yield c
    scripts = case.get("scripts")
    if scripts and len(scripts) > 1:
        for i in range(len(scripts)):
            c = copy.deepcopy(case)
            c["scripts"] = [scripts[i]]
            yield c
    if case.get("style") != "frac":
        c = copy.deepcopy(case)
        c["style"] = "frac"
        yield c
    if case["prog"].get("types"):
        c = copy.deepcopy(case)
        c["prog"]["types"] = []
        yield c
    prog = case["prog"]
    for section in ("body", "init"):
        for path in _stmt_paths(prog[section], [section]):
            c = copy.deepcopy(case)
            lst, idx = _get_list(c["prog"], path)
            if len(lst) <= 1 and section == "body" and len(path) == 2:
                continue
            s = lst[idx]
            del lst[idx]
            if not lst and len(path) > 2:
                continue
            yield c
            if s[0] == "if":
                for _, br in s[1]:
                    c2 = copy.deepcopy(case)
                    l2, i2 = _get_list(c2["prog"], path)
                    l2[i2:i2 + 1] = copy.deepcopy(br)
                    yield c2
    if scripts:
        for ri, sc in enumerate(scripts):
            for i, u in enumerate(sc):
                if u != 0.5:
                    c = copy.deepcopy(case)
                    c["scripts"][ri][i] = 0.5
                    yield c


def shrink(case, extra=None):
    base = run_case(case)
    cls = vclass(base)
    if cls is None:
        return {"outcome": "not_reproduced", "case": case, "result": base}
    cur = copy.deepcopy(case)
    curres = base
    if cur["kind"] == "sequence":
        vi = base.get("violating_index")
        if vi is not None:
            cur["cases"] = cur["cases"][:vi + 1]
            for c, sc in zip(cur["cases"], base.get("scripts_by_case") or []):
                if sc:
                    c["scripts"] = sc
    else:
        cur["scripts"] = base["scripts"]
        # keep only the run that violates
        bad_run = _lead(base).get("run", 0)
        cand = copy.deepcopy(cur)
        cand["scripts"] = [base["scripts"][bad_run]]
        r = run_case(cand)
        if vclass(r) == cls:
            cur, curres = cand, r
    steps = 0
    improved = True
    while improved and steps < 300:
        improved = False
        for cand in _variants(cur):
            steps += 1
            try:
                r = run_case(cand)
            except Exception:  # noqa
                continue
            if vclass(r) == cls:
                if cand["kind"] != "sequence":
                    cand["scripts"] = r["scripts"]
                cur, curres = cand, r
                improved = True
                break
            if steps >= 300:
                break
    return {"outcome": "shrunk", "case": cur, "result": curres, "steps": steps, "class": cls}


def summarize(results, tier):
    from collections import Counter

    oc = Counter(r.get("outcome") for r in results)
    probes = Counter()
    fp = Counter()
    triples = 0
    execs = 0
    iters = 0
    gf = 0
    paths = 0
    progs = set()
    samples = []
    refusals = Counter()
    for r in results:
        if r.get("outcome") in ("ok", "violation"):
            progs.add(r.get("text"))
            triples += r.get("observed_triples", 0)
            execs += r.get("runs", 0)
            iters += r.get("iterations_total", 0)
            gf += r.get("guard_false_iterations", 0)
            paths += r.get("path_sigs", 0)
            fp[str(r.get("fp_iterations"))] += 1
            probes["multi_program_sequences"] += 1 if r.get("kind") == "sequence" else 0
            probes["programs_with_symbolic_probability"] += 1 if r.get("symbolic") else 0
            probes["programs_with_transform_categoricals"] += 1 if r.get("transform_categoricals") else 0
            tk = r.get("typed_kinds", {})
            for k, v in tk.items():
                probes["typed_" + k] += v
            probes["programs_with_untyped_assigned_var"] += 1 if r.get("untyped") else 0
            probes["programs_with_typed_var"] += 1 if r.get("typed") else 0
            probes["eval_errors"] += r.get("eval_errors", 0)
            if len(samples) < 3 and r.get("typed") and r.get("guard_false_iterations", 0) > 0:
                samples.append({"program": r.get("text"), "inferred_types": r.get("typed"), "fp_iterations": r.get("fp_iterations"),
                                "executions": r.get("runs"), "first_resolutions": [round(u, 6) for u in (r.get("scripts") or [[]])[0][:10]],
                                "seed": r.get("seed")})
        elif r.get("outcome") == "polar_refused":
            refusals[(r.get("error") or "?").split(":")[0]] += 1
    nontrivial = len([1 for r in results if r.get("outcome") in ("ok", "violation") and r.get("typed") and r.get("observed_triples", 0) > 0])
    return {
        "evaluations": len(results),
        "distinct_nontrivial": len({r.get("text") for r in results if r.get("outcome") in ("ok", "violation") and r.get("typed") and r.get("observed_triples", 0) > 0}),
        "rule": "one case = one generated program normalised and typed by Polar under a swarm-chosen type_fp_iterations, then its "
                "normalised IR executed 8-20 times for 3-12 iterations under scripted resolutions; distinct = distinct program text; "
                "non-trivial = at least one variable received an inferred finite type and at least one (variable, value) was observed",
        "samples": samples or [{"note": "no sample recorded"}],
        "outcomes": dict(oc),
        "distinct_programs_executed": len(progs),
        "ir_executions": execs,
        "distinct_resolution_paths": paths,
        "logical_time_loop_iterations": iters,
        "iterations_after_source_guard_false": gf,
        "distinct_program_variable_value_triples": triples,
        "fp_iterations_swarm": dict(fp),
        "probes": dict(sorted(probes.items())),
        "polar_refusals": dict(refusals),
        "judged_nontrivial": nontrivial,
        "real_components": ["inputparser.Parser", "program.normalize_program (all transformers)", "type_inference.FiniteFixedPointTyper",
                            "program.assignment.*.evaluate / get_support", "program.condition.*.evaluate", "program.distribution.*.sample/get_support"],
        "stubbed_components": ["random.* and scipy.stats rvs (scripted RNG seam)"],
    }


REQUIRED = ["typed_old", "typed_alias", "typed_orig", "typed_r", "typed_c", "typed_t", "programs_with_untyped_assigned_var",
            "programs_with_symbolic_probability"]


def probe_failures(cov):
    bad = [p for p in REQUIRED if cov["probes"].get(p, 0) == 0]
    if cov.get("iterations_after_source_guard_false", 0) == 0:
        bad.append("iterations_after_source_guard_false")
    return bad
