"""Program AST shared by the generator, the renderer (text Polar parses) and the reference
interpreter.  Everything is JSON-serialisable (lists / dicts / strings / ints) so that replay
files can carry the AST itself.

Expr : ["num","p/q"] | ["var",name] | ["add",a,b] | ["sub",a,b] | ["mul",a,b] | ["div",a,b] | ["pow",a,k] | ["neg",a]
Cond : ["cmp",e1,op,e2] | ["and",c1,c2] | ["or",c1,c2] | ["not",c] | ["true"] | ["false"]
Rhs  : Expr | ["choice",[[expr,prob|None],...]] | ["draw",family,[expr...]] | ["func",name,expr]
Stmt : ["assign",var,rhs] | ["simul",[vars],[rhs...]] | ["if",[[cond,[stmts]],...],else_stmts|None]
Prog : {"types":[[var,"Finite",[num...]]...], "init":[stmts], "guard":cond, "body":[stmts]}
"""
from fractions import Fraction

EXPR_TAGS = {"num", "var", "add", "sub", "mul", "div", "pow", "neg"}


def num(x):
    f = Fraction(x)
    return ["num", f"{f.numerator}/{f.denominator}" if f.denominator != 1 else str(f.numerator)]


def var(name):
    return ["var", name]


def frac_of(numnode):
    return Fraction(numnode[1])


def is_expr(node):
    return isinstance(node, list) and node and node[0] in EXPR_TAGS


# ---------------------------------------------------------------- rendering
def _num_str(s, style):
    try:
        f = Fraction(s)
    except (ValueError, ZeroDivisionError):
        return str(s)       # a symbolic constant (e.g. a probability called p)
    if style == "decimal" and f.denominator in (2, 4, 8, 5, 10) and f.denominator != 1:
        txt = repr(float(f))
        return txt if f >= 0 else f"({txt})"
    if f.denominator == 1:
        return str(f.numerator) if f >= 0 else f"({f.numerator})"
    if f >= 0:
        return f"{f.numerator}/{f.denominator}"
    return f"({f.numerator}/{f.denominator})"


PREC = {"add": 1, "sub": 1, "mul": 2, "div": 2, "neg": 1, "pow": 3, "num": 4, "var": 4}


def render_min(e, style="frac"):
    """the same expression with only the parentheses Python's operator precedence requires"""
    t = e[0]
    if t == "num":
        s = _num_str(e[1], "frac" if style == "minimal" else style)
        return s
    if t == "var":
        return e[1]

    def child(c, need, right=False):
        r = render_min(c, style)
        pc = PREC[c[0]]
        if c[0] == "num" and ("/" in r or r.startswith("(")):
            pc = 2 if not r.startswith("(") else 4
        if pc < need or (right and pc == need):
            return r if r.startswith("(") and r.endswith(")") and r.count("(") == 1 else f"({r})"
        return r

    if t == "neg":
        return f"0 - {child(e[1], 1, True)}"
    if t == "pow":
        return f"{child(e[1], 4)}**{int(e[2])}"
    op = {"add": "+", "sub": "-", "mul": "*", "div": "/"}[t]
    p = PREC[t]
    return f"{child(e[1], p)} {op} {child(e[2], p, right=t in ('sub', 'div'))}"


def render_expr(e, style="frac", top=True):
    if style == "minimal":
        r = render_min(e, style)
        return r if top or e[0] in ("num", "var") and not ("/" in r or " " in r) else (r if r.startswith("(") and r.endswith(")") and r.count("(") == 1 else f"({r})")
    t = e[0]
    if t == "num":
        s = _num_str(e[1], style)
        if not top and "/" in s and not s.startswith("("):
            return f"({s})"
        return s
    if t == "var":
        return e[1]
    if t == "neg":
        return f"(0 - {render_expr(e[1], style, False)})" if not top else f"0 - {render_expr(e[1], style, False)}"
    if t == "pow":
        return f"{render_expr(e[1], style, False)}**{int(e[2])}"
    op = {"add": "+", "sub": "-", "mul": "*", "div": "/"}[t]
    s = f"{render_expr(e[1], style, False)} {op} {render_expr(e[2], style, False)}"
    return s if top else f"({s})"


def render_cond(c, style="frac"):
    t = c[0]
    if t == "true":
        return "true"
    if t == "false":
        return "false"
    if t == "cmp":
        return f"{render_expr(c[1], style)} {c[2]} {render_expr(c[3], style)}"
    if t == "not":
        return f"!({render_cond(c[1], style)})"
    op = "&&" if t == "and" else "||"
    return f"({render_cond(c[1], style)}) {op} ({render_cond(c[2], style)})"


def render_rhs(r, style="frac", explicit_last=True):
    t = r[0]
    if t == "choice":
        parts = []
        items = r[1]
        for i, (e, p) in enumerate(items):
            parts.append(render_expr(e, style))
            last = i == len(items) - 1
            if p is not None and not (last and not explicit_last):
                parts.append("{" + (render_expr(p, style) if isinstance(p, list) else _num_str(p, "frac")) + "}")
        return " ".join(parts)
    if t == "draw":
        return f"{r[1]}({', '.join(render_expr(a, style) for a in r[2])})"
    if t == "func":
        a = r[2]
        if a[0] == "var":
            return f"{r[1]}({a[1]})"
        f = Fraction(a[1])  # grammar: NUMBER only (unsigned int or decimal)
        return f"{r[1]}({f.numerator if f.denominator == 1 else repr(float(f))})"
    return render_expr(r, style)


def render_stmts(stmts, indent, style, out, explicit_last=True):
    pad = " " * indent
    for s in stmts:
        t = s[0]
        if t == "assign":
            out.append(f"{pad}{s[1]} = {render_rhs(s[2], style, explicit_last)}")
        elif t == "simul":
            out.append(f"{pad}{', '.join(s[1])} = {', '.join(render_rhs(r, style, explicit_last) for r in s[2])}")
        elif t == "if":
            for i, (c, br) in enumerate(s[1]):
                kw = "if" if i == 0 else "elif"
                out.append(f"{pad}{kw} {render_cond(c, style)}:")
                render_stmts(br, indent + 4, style, out, explicit_last)
            if s[2] is not None:
                out.append(f"{pad}else:")
                render_stmts(s[2], indent + 4, style, out, explicit_last)
            out.append(f"{pad}end")
        else:
            raise ValueError(f"unknown statement {t}")


def render_program(p, style="frac", explicit_last=True):
    out = []
    if p.get("types"):
        out.append("types")
        for v, tname, params in p["types"]:
            out.append(f"    {v} : {tname}({', '.join(_num_str(x, 'frac') for x in params)})")
        out.append("end")
    render_stmts(p["init"], 0, style, out, explicit_last)
    out.append(f"while {render_cond(p['guard'], style)}:")
    render_stmts(p["body"], 4, style, out, explicit_last)
    out.append("end")
    return "\n".join(out) + "\n"


# ---------------------------------------------------------------- walking
def stmt_count(stmts):
    n = 0
    for s in stmts:
        n += 1
        if s[0] == "if":
            for _, br in s[1]:
                n += stmt_count(br)
            if s[2] is not None:
                n += stmt_count(s[2])
    return n


def assigned_vars(stmts, acc=None):
    acc = set() if acc is None else acc
    for s in stmts:
        if s[0] == "assign":
            acc.add(s[1])
        elif s[0] == "simul":
            acc.update(s[1])
        elif s[0] == "if":
            for _, br in s[1]:
                assigned_vars(br, acc)
            if s[2] is not None:
                assigned_vars(s[2], acc)
    return acc


def expr_vars(e, acc=None):
    acc = set() if acc is None else acc
    if e[0] == "var":
        acc.add(e[1])
    elif e[0] in ("add", "sub", "mul", "div"):
        expr_vars(e[1], acc)
        expr_vars(e[2], acc)
    elif e[0] in ("pow", "neg"):
        expr_vars(e[1], acc)
    return acc


def rename_vars(node, mapping):
    """deep copy of an AST node with variables renamed"""
    if isinstance(node, dict):
        return {"types": [[mapping.get(v, v), t, list(ps)] for v, t, ps in node.get("types", [])],
                "init": rename_vars(node["init"], mapping), "guard": rename_vars(node["guard"], mapping),
                "body": rename_vars(node["body"], mapping)}
    if isinstance(node, list):
        if node and node[0] == "var" and len(node) == 2 and isinstance(node[1], str):
            return ["var", mapping.get(node[1], node[1])]
        if node and node[0] == "assign":
            return ["assign", mapping.get(node[1], node[1]), rename_vars(node[2], mapping)]
        if node and node[0] == "simul":
            return ["simul", [mapping.get(v, v) for v in node[1]], [rename_vars(r, mapping) for r in node[2]]]
        if node and node[0] == "num":
            return list(node)
        return [rename_vars(x, mapping) for x in node]
    return node
