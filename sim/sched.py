"""Resolution schedulers: decide the quantile u in (0,1) at which a random request resolves.

One `random.Random` instance (seeded from the run seed) is the only PRNG; in replay mode the
recorded list of resolutions is used instead and no PRNG exists at all.
"""

EXTREMES = [1e-9, 1 - 1e-9, 1e-6, 1 - 1e-6, 0.001, 0.999]


class ScriptExhausted(Exception):
    pass


class Scheduler:
    def __init__(self, rng=None, policy="uniform", script=None):
        self.rng = rng
        self.policy = policy
        self.script = list(script) if script is not None else None
        self.pos = 0
        self.taken = {}          # (signature, outcome) -> count, for the coverage policy
        self.used = []           # every resolution handed out, in order (the replay script)
        self.n_extreme = 0
        self.n_boundary = 0

    def _signature(self, law):
        d = law.describe()
        if d["kind"] == "finite":
            return ("finite", len(d["points"]))
        return ("cont", d["name"])

    def choose(self, law, thresholds=None):
        """thresholds: constants the drawn variable is later compared with (boundary-seeking resolutions)"""
        if self.script is None and thresholds and law.kind == "cont" and self.policy != "uniform" and self.rng.random() < 0.3:
            t = self.rng.choice(sorted(thresholds))
            delta = self.rng.choice([1e-10, 1e-9, 1e-8, 1e-6, 1e-3]) * max(1.0, abs(t)) * self.rng.choice([-1, 1])
            try:
                u = law.cdf(t + delta)
            except Exception:  # noqa
                u = 0.0
            if 1e-12 < u < 1 - 1e-12:
                self.n_boundary += 1
                self.used.append(u)
                return u
        if self.script is not None:
            if self.pos < len(self.script):
                u = float(self.script[self.pos])
            else:
                # a shrunk script may be shorter than the run: continue with the median
                u = 0.5
            self.pos += 1
            u = min(max(u, 1e-12), 1 - 1e-12)
        else:
            # an outcome of probability below 1e-16 has no quantile strictly inside (0,1) in double precision
            u = min(max(self._draw(law), 1e-12), 1 - 1e-12)
        self.used.append(u)
        return u

    def _draw(self, law):
        rng = self.rng
        pol = self.policy
        if pol == "mixed":
            pol = rng.choice(["uniform", "coverage", "adversarial"])
        if law.kind == "finite":
            n = len(law.points)
            if pol == "uniform":
                return min(max(rng.random(), 1e-12), 1 - 1e-12)
            if pol == "coverage":
                sig = self._signature(law)
                counts = [self.taken.get((sig, i), 0) for i in range(n)]
                m = min(counts)
                idx = rng.choice([i for i, c in enumerate(counts) if c == m])
            else:  # adversarial: first / last / least probable outcome
                probs = [p for _, p in law.normalized()]
                idx = rng.choice([0, n - 1, probs.index(min(probs))])
                self.n_extreme += 1
            self.taken[(self._signature(law), idx)] = self.taken.get((self._signature(law), idx), 0) + 1
            return law.mid_quantile_of(idx)
        # continuous
        if pol == "uniform":
            return min(max(rng.random(), 1e-12), 1 - 1e-12)
        if pol == "coverage":
            sig = self._signature(law)
            counts = [self.taken.get((sig, i), 0) for i in range(8)]
            m = min(counts)
            b = rng.choice([i for i, c in enumerate(counts) if c == m])
            self.taken[(sig, b)] = counts[b] + 1
            return min(max((b + rng.random()) / 8.0, 1e-12), 1 - 1e-12)
        self.n_extreme += 1
        return rng.choice(EXTREMES)
