"""Orchestrator: derives run seeds from VERIF_SEED, fans runs out over worker interpreters
(plain subprocesses, never multiprocessing.Pool), collects results, minimises and replays
violations, writes evidence.

Work is partitioned by *run index* into fixed-size batches, so run i is the same execution
whatever the worker count.
"""
import hashlib
import json
import os
import shutil
import subprocess
import sys
import tempfile
import time

VERIF = os.path.dirname(os.path.dirname(os.path.abspath(__file__)))
PY = "/venv/bin/python"
WORKER = os.path.join(VERIF, "sim", "worker.py")


def repo_path():
    return os.environ.get("POLAR_REPO", "/repo")


def derive_seed(master, check, i):
    h = hashlib.sha256(f"{master}|{check}|{i}".encode()).digest()
    return int.from_bytes(h[:6], "big")


def scratch_root():
    for base in ("/dev/shm", "/var/tmp"):
        if os.path.isdir(base) and os.access(base, os.W_OK):
            return tempfile.mkdtemp(prefix="verif-", dir=base)
    return tempfile.mkdtemp(prefix="verif-")


def worker_env(hashseed, scratch):
    env = dict(os.environ)
    env["PYTHONHASHSEED"] = str(hashseed)
    env["PYTHONPATH"] = repo_path() + os.pathsep + VERIF
    env["PYTHONDONTWRITEBYTECODE"] = "1"
    env["PYTHONWARNINGS"] = "ignore"
    env["VERIF_SCRATCH"] = scratch
    env["MPLBACKEND"] = "Agg"
    env["MPLCONFIGDIR"] = scratch
    env["OMP_NUM_THREADS"] = "1"
    env["OPENBLAS_NUM_THREADS"] = "1"
    env["POLAR_REPO"] = repo_path()
    return env


class Job:
    def __init__(self, check, runs, hashseed=0, timeout=600, extra=None):
        self.check = check
        self.runs = runs            # list of dicts {index, seed, ...} or {index, case}
        self.hashseed = hashseed
        self.timeout = timeout
        self.extra = extra or {}
        self.proc = None
        self.t0 = None
        self.dir = None


def run_jobs(jobs, workers, scratch, progress=None, deadline=None):
    """Run jobs on at most `workers` concurrent interpreters.  Returns list of per-run result
    dicts (each has index); runs of a job that died or timed out are reported with outcome
    'timeout' / 'worker_died'."""
    pending = list(jobs)
    running = []
    results = []
    jid = 0
    while pending or running:
        while pending and len(running) < workers:
            if deadline is not None and time.time() > deadline:
                for j in pending:
                    for r in j.runs:
                        results.append({"index": r["index"], "outcome": "not_run"})
                pending = []
                break
            j = pending.pop(0)
            jid += 1
            j.dir = os.path.join(scratch, f"job{jid}")
            os.makedirs(j.dir, exist_ok=True)
            spec = {"check": j.check, "runs": j.runs, "out": os.path.join(j.dir, "out.jsonl"),
                    "repo": repo_path(), "extra": j.extra, "timeout": j.timeout}
            with open(os.path.join(j.dir, "job.json"), "w") as f:
                json.dump(spec, f)
            j.log = open(os.path.join(j.dir, "log.txt"), "w")
            j.proc = subprocess.Popen([PY, WORKER, os.path.join(j.dir, "job.json")], stdout=j.log, stderr=j.log,
                                      env=worker_env(j.hashseed, j.dir), cwd=j.dir, stdin=subprocess.DEVNULL)
            j.t0 = time.time()
            running.append(j)
        still = []
        for j in running:
            rc = j.proc.poll()
            timed_out = rc is None and time.time() - j.t0 > j.timeout + 30
            if rc is None and not timed_out:
                still.append(j)
                continue
            if timed_out:
                j.proc.kill()
                j.proc.wait()
            j.log.close()
            got = {}
            try:
                with open(os.path.join(j.dir, "out.jsonl")) as f:
                    for line in f:
                        line = line.strip()
                        if line:
                            try:
                                r = json.loads(line)
                                got[r["index"]] = r
                            except ValueError:
                                pass
            except OSError:
                pass
            tail = ""
            if len(got) < len(j.runs):
                try:
                    with open(os.path.join(j.dir, "log.txt")) as f:
                        tail = f.read()[-1500:]
                except OSError:
                    pass
            for r in j.runs:
                if r["index"] in got:
                    results.append(got[r["index"]])
                else:
                    results.append({"index": r["index"], "seed": r.get("seed"),
                                    "outcome": "timeout" if timed_out else "worker_died", "log_tail": tail})
            shutil.rmtree(j.dir, ignore_errors=True)
            if progress:
                progress(len(results))
        running = still
        if running:
            time.sleep(0.05)
    results.sort(key=lambda r: r["index"])
    return results


def run_single(check, run, scratch, hashseed=0, timeout=600, extra=None):
    res = run_jobs([Job(check, [run], hashseed, timeout, extra)], 1, scratch)
    return res[0]


def write_json(path, obj):
    os.makedirs(os.path.dirname(path), exist_ok=True)
    tmp = path + ".tmp"
    with open(tmp, "w") as f:
        json.dump(obj, f, indent=1, sort_keys=True, default=str)
    os.replace(tmp, path)


def load_known_findings():
    p = os.path.join(VERIF, "known_findings.json")
    try:
        with open(p) as f:
            return json.load(f)
    except OSError:
        return {"findings": []}
