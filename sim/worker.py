"""Worker interpreter ("world"): started by the orchestrator with a chosen PYTHONHASHSEED and the
Polar tree on PYTHONPATH.  Reads a job file, executes its runs in order, appends one JSON line per
run to the job's output file (stdout/stderr of the code under test go to the job log)."""
import faulthandler
import importlib
import json
import os
import sys
import time
import traceback


def main():
    jobfile = sys.argv[1]
    with open(jobfile) as f:
        job = json.load(f)
    verif = os.path.dirname(os.path.dirname(os.path.abspath(__file__)))
    for p in (verif, job["repo"]):
        if p in sys.path:
            sys.path.remove(p)
    sys.path.insert(0, verif)
    sys.path.insert(0, job["repo"])
    if hasattr(sys, "set_int_max_str_digits"):
        sys.set_int_max_str_digits(0)      # exact rationals of exploding programs have more than 4300 digits
    faulthandler.enable()
    faulthandler.dump_traceback_later(job.get("timeout", 600), exit=True)
    mod = importlib.import_module("sim.check_" + job["check"].lower())
    out = open(job["out"], "a")
    extra = job.get("extra", {})
    for run in job["runs"]:
        t0 = time.time()
        rec = {"index": run["index"], "seed": run.get("seed")}
        try:
            mode = run.get("mode", "run")
            if mode == "shrink":
                res = mod.shrink(run["case"], extra)
            else:
                if "case" in run:
                    case = run["case"]
                else:
                    try:
                        case = mod.gen_case(run["seed"], extra)
                    except Exception:  # noqa
                        # a generator fault costs this run only; it is counted in the evidence, never a verdict
                        rec["outcome"] = "gen_error"
                        rec["trace"] = traceback.format_exc()[-1500:]
                        rec["wall_s"] = round(time.time() - t0, 4)
                        out.write(json.dumps(rec, default=str) + "\n")
                        out.flush()
                        continue
                res = mod.run_case(case, extra)
                if res.get("outcome") == "violation" or extra.get("keep_case") or run.get("keep_case"):
                    res["case"] = case
            rec.update(res)
        except BaseException as e:  # noqa
            if isinstance(e, (KeyboardInterrupt, SystemExit)):
                raise
            rec["outcome"] = "harness_error"
            rec["trace"] = traceback.format_exc()[-3000:]
        rec["wall_s"] = round(time.time() - t0, 4)
        out.write(json.dumps(rec, default=str) + "\n")
        out.flush()
    out.close()
    faulthandler.cancel_dump_traceback_later()


if __name__ == "__main__":
    main()
