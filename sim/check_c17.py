"""C17 plug-in: the same program and goal analysed under several option vectors.

The options are process-global module attributes read at three pipeline phases, so they are
applied through the real `settings` seam, per session, inside one interpreter in which sessions with
different vectors are interleaved step by step (settings churn between any two steps).  Oracle: the
default vector alone in a pristine interpreter.  Attribution: a deviation counts for C17 only if the
deviating vector *alone* in a pristine interpreter deviates too; otherwise it is history dependence
(C20's business) and is only noted.
"""
import copy
import hashlib
import json
import os
import random as _random

from . import gen, canon
from .past import render_program, rename_vars, num, var
from . import check_c20 as c20

PROPERTY = "C17"
BATCH = {"quick": 5, "thorough": 8}
RUNS = {"quick": 140, "thorough": 5000}
TIMEOUT = 1500
LEVEL = "exploration"
FIXED_BATCHES = True
batch_hashseed = c20.batch_hashseed
ASSUMPTIONS = [
    "reference: the same goal under the default option vector, alone in a pristine interpreter (PYTHONHASHSEED=0)",
    "strategy/representation options (cond2arithm, transform_categoricals, solver choice, explicit types equal to the inferred ones, "
    "type_fp_iterations) must give exactly equal values whenever both sides succeed; one side refusing is not a violation",
    "numeric-root options: is_exact=True implies exact equality; any difference implies is_exact=False; deviation bound 1e-3 relative "
    "for n<=7 at eps<=1e-6 is deliberately loose (gross errors only)",
    "trivial_guard is excluded (changes meaning by design); exact_func_moments is not a C17 option (only subject to C20)",
    "known finding F3 (C05) makes Polar's results wrong for programs in which a variable is assigned twice under a loop guard; "
    "those results are equally wrong under every option vector and the default-vector reference inherits them",
]


def option_vector(rng):
    v = {}
    r = rng.random()
    if r < 0.55:
        # representation / strategy only
        if rng.random() < 0.4:
            v["transform_categoricals"] = True
        if rng.random() < 0.4:
            v["cond2arithm"] = True
        if rng.random() < 0.25:
            v["type_fp_iterations"] = rng.choice([1, 2, 5, 100])
        if rng.random() < 0.25:
            v["_force_cyclic"] = True
        if rng.random() < 0.2:
            v["_explicit_types"] = True
        if not v:
            v[rng.choice(["transform_categoricals", "cond2arithm"])] = True
    else:
        if rng.random() < 0.6:
            v["numeric_roots"] = True
        if rng.random() < 0.5 or not v:
            v["numeric_croots"] = True
        v["numeric_eps"] = rng.choice([1e-6, 1e-10, 1e-10])
        if rng.random() < 0.3:
            v["cond2arithm"] = True
        if rng.random() < 0.3:
            v["_force_cyclic"] = True
    return v


def linear_system_program(rng):
    """deterministic or mildly probabilistic linear loops with interesting characteristic roots:
    rotations (complex roots), Fibonacci (irrational), nilpotent chains (zero roots), repeated roots"""
    kind = rng.choice(["rotation", "fib", "nilpotent", "repeated", "random", "random", "tribonacci", "rot-scaled"])
    names = ["x", "y", "z", "w"]
    if kind == "rotation":
        vs, M = names[:2], [[0, -1], [1, 0]]
    elif kind == "rot-scaled":
        vs, M = names[:2], [[1, -1], [1, 1]]
    elif kind == "fib":
        vs, M = names[:2], [[0, 1], [1, 1]]
    elif kind == "tribonacci":
        vs, M = names[:3], [[0, 1, 0], [0, 0, 1], [1, 1, 1]]
    elif kind == "nilpotent":
        vs, M = names[:3], [[0, 1, 0], [0, 0, 1], [0, 0, 0]]
    elif kind == "repeated":
        vs, M = names[:2], [[2, 1], [0, 2]]
    else:
        k = rng.choice([2, 2, 3])
        vs = names[:k]
        M = [[rng.choice([-2, -1, 0, 0, 1, 1, 2]) for _ in range(k)] for _ in range(k)]
    init = [["simul", vs, [num(rng.choice([0, 1, 1, 2, -1])) for _ in vs]]] if rng.random() < 0.5 else [["assign", v, num(rng.choice([0, 1, 1, 2, -1]))] for v in vs]

    def row(r):
        e = None
        for c, v in zip(r, vs):
            if c == 0:
                continue
            t = var(v) if c == 1 else ["mul", num(c), var(v)]
            e = t if e is None else ["add", e, t]
        return e if e is not None else num(0)

    rhs = [row(r) for r in M]
    body = [["simul", vs, rhs]]
    if rng.random() < 0.35:
        # probabilistic perturbation keeps the system linear in expectation
        v = rng.choice(vs)
        body.append(["assign", v, ["choice", [[["add", var(v), num(1)], "1/2"], [var(v), None]]]])
    prog = {"types": [], "init": init, "guard": ["true"], "body": body}
    # squares of systems with three variables mean degree >= 6 characteristic polynomials with nested radicals: minutes in sympy
    return prog, vs, len(vs) <= 2


def _program_choice(rng):
    r = rng.random()
    if r < 0.4:
        cor = c20.corpus()["ok"]
        path = rng.choice(sorted(cor))
        goals = rng.sample(cor[path]["goals"], min(len(cor[path]["goals"]), rng.choice([1, 2, 2])))
        return {"path": path}, goals, path
    if r < 0.7:
        prog, vs, squares = linear_system_program(rng)
        text = render_program(prog)
        goals = rng.sample(vs, min(len(vs), 2))
        if squares and rng.random() < 0.3:
            goals.append(f"{vs[0]}**2")
        return {"text": text, "ast": prog}, goals, "lin:" + hashlib.sha256(text.encode()).hexdigest()[:10]
    prog = gen.gen_c05_program(rng)
    names = sorted({s[1] for s in prog["init"] if s[0] == "assign"})
    text = render_program(prog)
    goals = []
    for _ in range(rng.choice([1, 2])):
        v = rng.choice(names)
        goals.append(v if rng.random() < 0.6 else f"{v}**2")
    return {"text": text, "ast": prog}, sorted(set(goals)), "gen:" + hashlib.sha256(text.encode()).hexdigest()[:10]


def gen_case(seed, extra=None):
    rng = _random.Random(seed)
    tier = (extra or {}).get("tier", "quick")
    program, goals, pid = _program_choice(rng)
    nvec = rng.choice([2, 2, 3, 4])
    sessions = []
    for _ in range(nvec):
        vec = option_vector(rng)
        opts = {k: v for k, v in vec.items() if not k.startswith("_")}
        s = {"kind": "lib", "pid": pid, "program": {k: v for k, v in program.items() if k != "ast"},
             "goals": [{"monom": g, "kind": "raw"} for g in goals], "options": opts,
             "api": "raw" if vec.get("_force_cyclic") or rng.random() < 0.5 else "common",
             "force_cyclic": bool(vec.get("_force_cyclic")), "explicit_types": bool(vec.get("_explicit_types"))}
        if s["explicit_types"]:
            s["options"]["disable_type_inference"] = True
        sessions.append(s)
    from .sessions import make_session
    remaining = [make_session(s).step_names() for s in sessions]
    ptr = [0] * len(sessions)
    live = list(range(len(sessions)))
    ops = []
    while live:
        sid = rng.choice(live)
        ops.append({"sid": sid, "step": remaining[sid][ptr[sid]], "pre": []})
        ptr[sid] += 1
        if ptr[sid] >= len(remaining[sid]):
            live.remove(sid)
    return {"kind": "config-history", "sessions": sessions, "ops": ops, "world_flags": {}, "rng_seed": seed % 1000003,
            "step_cap": 20 if tier == "quick" else 40, "seed": seed, "program_ast": program.get("ast")}


def _default_spec(sess, goal):
    return {"kind": "lib", "program": _plain_program(sess), "options": {}, "api": "common", "force_cyclic": False, "goals": [goal]}


def _plain_program(sess):
    p = sess.get("plain_program") or sess["program"]
    return p


def _alone_spec(sess, goal):
    return {"kind": "lib", "program": sess["program"], "options": sess["options"], "api": sess.get("api", "raw"),
            "force_cyclic": sess.get("force_cyclic", False), "goals": [goal]}


def _with_types(program, typedefs, repo):
    """source text with an explicit `types ... end` block equal to the inferred types of the original variables"""
    if "path" in program:
        with open(os.path.join(repo, program["path"])) as f:
            text = f.read()
    else:
        text = program["text"]
    if text.lstrip().startswith("types") or not typedefs:
        return None
    lines = ["types"]
    for v, vals in sorted(typedefs.items()):
        lines.append(f"    {v} : Finite({', '.join(vals)})")
    lines.append("end")
    return {"text": "\n".join(lines) + "\n" + text}


def _rel_dev(ca, cb, upto=8):
    worst = 0.0
    for va, vb in zip(ca["vals"], cb["vals"]):
        for x, y in list(zip(va, vb))[:upto]:
            d = canon.max_rel_deviation(x, y)
            if d is None:
                return None
            worst = max(worst, d)
    return worst


def _judge_goal(sess, w, r):
    """w: result under the session's vector; r: default-vector result.  -> (verdict, detail)"""
    if w["status"] != "ok" or r["status"] != "ok":
        return "na", None      # one side refused / timed out: the property speaks of goals that succeed under both
    wd, rd = w["data"], r["data"]
    numeric = bool(sess["options"].get("numeric_roots") or sess["options"].get("numeric_croots"))
    eq = canon.compare_closed_forms(wd["cf"], rd["cf"])
    if eq is None:
        return "inconclusive", None
    if not numeric:
        if eq is False:
            return "diff", {"what": "closed-form", "vector": sess["options"], "force_cyclic": sess.get("force_cyclic"),
                            "explicit_types": sess.get("explicit_types"), "under_vector": wd["cf"]["vals"][0][:6], "default": rd["cf"]["vals"][0][:6]}
        if wd["exact"] != rd["exact"]:
            return "diff", {"what": "is_exact", "vector": sess["options"], "under_vector": wd["exact"], "default": rd["exact"]}
        return "ok", None
    if not rd["exact"]:
        return "na", None
    if eq is False and wd["exact"]:
        return "diff", {"what": "rounded-result-reported-exact", "vector": sess["options"], "under_vector": wd["cf"]["vals"][0][:6],
                        "default": rd["cf"]["vals"][0][:6]}
    if eq is False:
        dev = _rel_dev(wd["cf"], rd["cf"])
        if dev is not None and dev > 1e-3 and sess["options"].get("numeric_eps", 1e-10) <= 1e-6:
            return "diff", {"what": "deviation-beyond-precision", "vector": sess["options"], "rel_dev_n_le_7": dev,
                            "under_vector": wd["cf"]["vals"][0][:6], "default": rd["cf"]["vals"][0][:6]}
    return "ok", None


def run_case(case, extra=None):
    from . import world
    world.preload()
    cap = case.get("step_cap", 20)
    rc = c20.ref_client()
    repo = os.environ.get("POLAR_REPO", "/repo")
    out = {"kind": "config-history", "hashseed": os.environ.get("PYTHONHASHSEED"), "notes": []}
    # resolve explicit-types sessions: the declared types are the ones the default run infers
    for s in case["sessions"]:
        if s.get("explicit_types") and not s.get("resolved"):
            head = rc.get({"kind": "lib", "program": s["program"], "options": {}, "api": "common", "goals": []}, cap)
            tds = None
            try:
                tds = head["steps"]["normalize"]["data"]["typedefs"]["vars"]
            except Exception:  # noqa
                pass
            newp = _with_types(s["program"], tds, repo) if tds else None
            s["plain_program"] = s["program"]
            if newp is None:
                s["explicit_types"] = False
                s["options"].pop("disable_type_inference", None)
            else:
                s["program"] = newp
            s["resolved"] = True
    nops = len(case["ops"])
    wres = world.fork_call(world.run_history, case, timeout=min(cap * (nops + 2) + 60, 12 * cap))
    if wres.get("status") != "done":
        out["outcome"] = "harness_error" if wres.get("status") == "harness_error" else "timeout"
        out["trace"] = wres.get("trace")
        return out
    problems = []
    stats = {"compared": 0, "ok": 0, "na": 0, "inconclusive": 0, "history_only": 0}
    pairs = []
    for oi, (op, w) in enumerate(zip(case["ops"], wres["results"])):
        if not op["step"].startswith("goal:"):
            continue
        sess = case["sessions"][op["sid"]]
        goal = sess["goals"][int(op["step"].split(":")[1])]
        ref = rc.get(_default_spec(sess, goal), cap)
        if ref.get("status") != "done" or "goal:0" not in ref["steps"]:
            stats["na"] += 1
            continue
        r = ref["steps"]["goal:0"]
        verdict, detail = _judge_goal(sess, w, r)
        stats["compared"] += 1
        if verdict == "diff":
            # attribution: does the vector alone in a pristine interpreter deviate as well?
            alone = rc.get(_alone_spec(sess, goal), cap)
            a = alone.get("steps", {}).get("goal:0") if alone.get("status") == "done" else None
            v2, d2 = _judge_goal(sess, a, r) if a else ("inconclusive", None)
            if v2 == "diff":
                problems.append(dict(d2, op=oi, sid=op["sid"], goal=goal["monom"], pid=sess.get("pid"), session_kind="lib"))
            else:
                stats["history_only"] += 1
                out["notes"].append(f"op {oi}: deviates inside the history only (history dependence is C20's property): {detail.get('what')}")
        elif verdict == "ok":
            stats["ok"] += 1
            if w["status"] == "ok":
                pairs.append((sess.get("pid"), json.dumps(sess["options"], sort_keys=True), sess.get("force_cyclic"), sess.get("explicit_types"),
                              goal["monom"], w["data"].get("solver"), r["data"].get("solver")))
        elif verdict == "na":
            stats["na"] += 1
        else:
            stats["inconclusive"] += 1
    # probes: did the option actually bite?
    norm_sigs = {}
    solvers = set()
    for op, w in zip(case["ops"], wres["results"]):
        if op["step"] == "normalize" and w["status"] == "ok":
            norm_sigs[op["sid"]] = (w["data"].get("normalized_sig"), w["data"].get("n_body"))
        if op["step"].startswith("goal:") and w["status"] == "ok":
            solvers.add(w["data"].get("solver"))
    statuses = [r["status"] for r in wres["results"]]
    out.update({
        "outcome": "violation" if problems else "ok",
        "problems": problems[:5],
        "stats": stats,
        "n_ops": nops,
        "statuses": {s: statuses.count(s) for s in set(statuses)},
        "pairs": sorted(set(pairs)),
        "vectors": sorted({json.dumps(dict(s["options"], _fc=s.get("force_cyclic"), _et=s.get("explicit_types")), sort_keys=True) for s in case["sessions"]}),
        "probes": {
            "normal_forms_differ": 1 if len(set(norm_sigs.values())) > 1 else 0,
            "cyclic_solver_used": 1 if "CyclicSolver" in solvers else 0,
            "explicit_types_resolved": sum(1 for s in case["sessions"] if s.get("explicit_types")),
            "numeric_vector": sum(1 for s in case["sessions"] if s["options"].get("numeric_roots") or s["options"].get("numeric_croots")),
        },
        "digest": hashlib.sha256(json.dumps({"ops": case["ops"], "res": [c20._strip(r) for r in wres["results"]]}, sort_keys=True, default=str).encode()).hexdigest()[:16],
    })
    desc = describe(case, problems[0] if problems else {})
    if problems:
        out["text"] = desc
    else:
        out["case_desc"] = desc
    return out


def describe(case, problem):
    s0 = case["sessions"][0]
    src = s0["program"].get("path") or s0.get("plain_program", {}).get("path") or "<inline>"
    lines = [f"program {src}; goals {[g['monom'] for g in s0['goals']]}"]
    if "text" in (s0.get("plain_program") or s0["program"]):
        lines.append((s0.get("plain_program") or s0["program"])["text"])
    for i, s in enumerate(case["sessions"]):
        lines.append(f"  session {i}: options={s['options']} force_cyclic={s.get('force_cyclic')} explicit_types={s.get('explicit_types')} api={s.get('api')}")
    lines.append("  schedule: " + " ".join(f"{o['sid']}:{o['step']}" for o in case["ops"]))
    if problem:
        lines.append(f"  deviating: session {problem.get('sid')} goal {problem.get('goal')}")
    return "\n".join(lines)


def vclass(res):
    if res.get("outcome") != "violation":
        return None
    return "c17:" + str(res["problems"][0].get("what"))


def finding_signature(res, case):
    p = res["problems"][0] if res.get("problems") else {}
    return {"class": vclass(res)}


def describe_violation(res):
    return json.dumps(res["problems"][0], default=str)[:900]


def _variants(case, bad_sid):
    sids = sorted({o["sid"] for o in case["ops"]})
    for sid in sids:
        if sid != bad_sid:
            c = copy.deepcopy(case)
            c["ops"] = [o for o in c["ops"] if o["sid"] != sid]
            yield c
    # sequential schedule
    c = copy.deepcopy(case)
    c["ops"] = sorted(c["ops"], key=lambda o: o["sid"])
    if c["ops"] != case["ops"]:
        yield c
    # drop other goals
    for i, o in enumerate(case["ops"]):
        if o["step"].startswith("goal:"):
            c = copy.deepcopy(case)
            del c["ops"][i]
            yield c
    # drop single options of the deviating session
    if bad_sid is not None:
        for k in list(case["sessions"][bad_sid]["options"]):
            c = copy.deepcopy(case)
            del c["sessions"][bad_sid]["options"][k]
            yield c
        if case["sessions"][bad_sid].get("force_cyclic"):
            c = copy.deepcopy(case)
            c["sessions"][bad_sid]["force_cyclic"] = False
            yield c


def shrink(case, extra=None):
    base = run_case(case)
    cls = vclass(base)
    if cls is None:
        return {"outcome": "not_reproduced", "case": case, "result": base}
    cur, curres = copy.deepcopy(case), base
    steps = 0
    improved = True
    while improved and steps < 40:
        improved = False
        for cand in _variants(cur, curres["problems"][0].get("sid")):
            steps += 1
            r = run_case(cand)
            if vclass(r) == cls:
                cur, curres = cand, r
                improved = True
                break
            if steps >= 40:
                break
    return {"outcome": "shrunk", "case": cur, "result": curres, "steps": steps, "class": cls}


def summarize(results, tier):
    from collections import Counter
    oc = Counter(r.get("outcome") for r in results)
    probes = Counter()
    stats = Counter()
    triples = set()
    vectors = set()
    hashseeds = set()
    ops = 0
    status = Counter()
    samples = []
    notes = 0
    for r in results:
        if r.get("outcome") not in ("ok", "violation"):
            continue
        for k, v in (r.get("probes") or {}).items():
            probes[k] += v
        for k, v in (r.get("stats") or {}).items():
            stats[k] += v
        for p in r.get("pairs") or []:
            triples.add(tuple(p[:5]))
        vectors.update(r.get("vectors") or [])
        hashseeds.add(r.get("hashseed"))
        ops += r.get("n_ops", 0)
        notes += len(r.get("notes") or [])
        for k, v in (r.get("statuses") or {}).items():
            status[k] += v
        if len(samples) < 3 and r.get("case_desc") and (r.get("stats") or {}).get("ok", 0) >= 2:
            samples.append(r["case_desc"])
    return {
        "evaluations": len(results),
        "distinct_nontrivial": len(triples),
        "rule": "one case = one program with 1-3 goals analysed in one interpreter by 2-4 interleaved sessions, each under its own option "
                "vector applied through the real global `settings`; every goal result is compared with the default vector alone in a "
                "pristine interpreter; distinct_nontrivial = distinct (program, option vector, goal) triples for which both sides succeeded "
                "and were compared",
        "samples": samples or [{"note": "no sample recorded"}],
        "outcomes": dict(oc),
        "goal_comparisons": dict(stats),
        "distinct_option_vectors": len(vectors),
        "logical_time_ops": ops,
        "op_statuses": dict(status),
        "probes": dict(sorted(probes.items())),
        "history_only_deviation_notes": notes,
        "distinct_world_hashseeds": len(hashseeds),
        "real_components": ["settings (global seam)", "inputparser (transform_categoricals)", "program.normalize_program (cond2arithm, type inference, "
                            "disable_type_inference)", "recurrences.solver.RecurrenceSolver / CyclicSolver / AcyclicSolver", "utils.expressions.get_all_roots"],
        "stubbed_components": ["none"],
    }


REQUIRED = ["normal_forms_differ", "cyclic_solver_used", "numeric_vector", "explicit_types_resolved"]


def probe_failures(cov):
    return [p for p in REQUIRED if cov["probes"].get(p, 0) == 0]
