"""C17 plug-in: the same history of analyses performed twice in pristine interpreters — once under
an option vector V, once under the default vector — and compared goal by goal.

The options are process-global module attributes read at three pipeline phases, so they are applied
through the real `settings` seam.  A history is 1-3 programs analysed one after the other (or with
interleaved steps) in one interpreter, as one CLI call over several files or a notebook does; both
worlds execute the same schedule, so a difference between them is an effect of the options alone —
including effects that need an earlier analysis in the same process to show (a cache keyed without
the program, say).  History dependence under *one* vector is C20's property and is not judged here.
"""
import copy
import hashlib
from fractions import Fraction
import json
import os
import random as _random

from . import gen, canon
from .past import render_program, num, var
from . import check_c20 as c20

PROPERTY = "C17"
BATCH = {"quick": 6, "thorough": 8}
RUNS = {"quick": 216, "thorough": 6000}
TIMEOUT = 1500
LEVEL = "exploration"
FIXED_BATCHES = True
batch_hashseed = c20.batch_hashseed
ASSUMPTIONS = [
    "reference: the same history of analyses under the default option vector in a pristine interpreter with the same hash seed",
    "strategy/representation options (cond2arithm, transform_categoricals, solver choice, explicit types equal to the inferred ones with "
    "inference disabled, type_fp_iterations) must give exactly equal values whenever both sides succeed; one side refusing is not a violation",
    "numeric-root options: is_exact=True implies exact equality; any difference implies is_exact=False; deviation bound 1e-3 relative "
    "for n<=7 at eps<=1e-6 is deliberately loose (gross errors only)",
    "trivial_guard is excluded (changes meaning by design); exact_func_moments is not a C17 option (only subject to C20)",
    "disable_type_inference without declarations is also drawn (12 % of the non-numeric vectors): programs that still succeed must agree; "
    "with declared types and inference disabled only original variables can be typed; programs whose conditions need the type of an "
    "auxiliary variable are then refused, which is not a violation",
]


# ---------------------------------------------------------------- option vectors
def option_vector(rng, bias=None):
    v = {}
    r = rng.random()
    if bias == "delay" and r < 0.7:
        # a small fixed-point budget against a delay line: failure / growth has to travel through the copies
        v = {"type_fp_iterations": rng.choice([1, 1, 2, 3])}
        if rng.random() < 0.3:
            v["_force_cyclic"] = True
        return v
    if bias == "delay":
        bias = "linear"
    if bias == "cubic":
        v = {"numeric_croots": True, "numeric_eps": rng.choice([1e-6, 1e-10])}
        if rng.random() < 0.4:
            v["numeric_roots"] = True
        if rng.random() < 0.5:
            v["_force_cyclic"] = True
        return v
    numeric = r >= 0.6 if bias is None else (bias == "linear" and rng.random() < 0.6)
    if not numeric:
        if rng.random() < (0.8 if bias == "categorical" else 0.3):
            v["transform_categoricals"] = True
        if rng.random() < (0.7 if bias == "branchy" else 0.35):
            v["cond2arithm"] = True
        if rng.random() < 0.2:
            v["type_fp_iterations"] = rng.choice([1, 2, 5, 100])
        if rng.random() < (0.5 if bias == "linear" else 0.2):
            v["_force_cyclic"] = True
        if rng.random() < (0.4 if bias == "branchy" else 0.15):
            v["_explicit_types"] = True
        elif rng.random() < 0.12:
            # no inferred and no declared types at all: programs that need none must give the same results without them
            v["disable_type_inference"] = True
        if not v:
            v[rng.choice(["transform_categoricals", "cond2arithm", "_force_cyclic"])] = True
    else:
        if rng.random() < 0.7:
            v["numeric_roots"] = True
        if rng.random() < 0.4 or not v:
            v["numeric_croots"] = True
        v["numeric_eps"] = rng.choice([1e-3, 1e-6, 1e-10, 1e-10])
        if rng.random() < 0.2:
            v["cond2arithm"] = True
        if rng.random() < 0.6:
            v["_force_cyclic"] = True
    return v


# ---------------------------------------------------------------- targeted program generators
def linear_system_program(rng):
    """linear loops whose characteristic polynomial has complex / irrational / zero / repeated roots, optionally
    extended by accumulators and counters (repeated root 1 next to the block's roots)"""
    kind = rng.choice(["rotation", "fib", "nilpotent", "repeated", "random", "random", "random", "tribonacci", "rot-scaled", "fib", "singular", "singular", "double-rotation"])
    names = ["x", "y", "z", "w"]
    if kind == "rotation":
        vs, M = names[:2], [[0, -1], [1, 0]]
    elif kind == "rot-scaled":
        vs, M = names[:2], [[1, -1], [1, 1]]
    elif kind == "fib":
        vs, M = names[:2], [[0, 1], [1, 1]]
    elif kind == "tribonacci":
        vs, M = names[:3], [[0, 1, 0], [0, 0, 1], [1, 1, 1]]
    elif kind == "nilpotent":
        vs, M = names[:3], [[0, 1, 0], [0, 0, 1], [0, 0, 0]]
    elif kind == "singular":
        vs, M = names[:2], [[0, rng.choice([-2, 1, 2])], [0, rng.choice([0, 1])]]
    elif kind == "repeated":
        vs, M = names[:2], [[2, 1], [0, 2]]
    elif kind == "double-rotation":
        # a Jordan block over the non-real roots: characteristic polynomial (t**2 + 1)**2 (or (t**2 + t + 1)**2)
        if rng.random() < 0.6:
            vs, M = names[:4], [[0, -1, 0, 0], [1, 0, 0, 0], [1, 0, 0, -1], [0, 1, 1, 0]]
        else:
            vs, M = names[:4], [[0, -1, 0, 0], [1, -1, 0, 0], [1, 0, 0, -1], [0, 1, 1, -1]]
    else:
        k = rng.choice([2, 2, 2, 2, 3])
        vs = names[:k]
        M = [[rng.choice([-2, -1, 0, 0, 1, 1, 2]) for _ in range(k)] for _ in range(k)]
    vals = [rng.choice([0, 1, 1, 2, -1]) for _ in vs]
    init = [["simul", vs, [num(v) for v in vals]]] if rng.random() < 0.5 else [["assign", v, num(x)] for v, x in zip(vs, vals)]

    def row(r):
        e = None
        for c, v in zip(r, vs):
            if c == 0:
                continue
            t = var(v) if c == 1 else ["mul", num(c), var(v)]
            e = t if e is None else ["add", e, t]
        return e if e is not None else num(0)

    body = [["simul", vs, [row(r) for r in M]]]
    goals = list(vs)
    extra = rng.random()
    if extra < 0.3:
        # counter and accumulator: (x-1)^2 times the block's polynomial
        init += [["assign", "c", num(0)], ["assign", "s", num(rng.choice([0, 1]))]]
        body = [["assign", "c", ["add", var("c"), num(1)]]] + body + [["assign", "s", ["add", ["add", var("s"), var(vs[0])], rng.choice([num(1), var("c")])]]]
        goals = ["s"] + goals
    elif extra < 0.5:
        init += [["assign", "s", num(0)]]
        body.append(["assign", "s", ["add", ["add", var("s"), var(rng.choice(vs))], num(1)]])
        goals = ["s"] + goals
    if rng.random() < 0.3:
        v = rng.choice(vs)
        body.append(["assign", v, ["choice", [[["add", var(v), num(1)], "1/2"], [var(v), None]]]])
    prog = {"types": [], "init": init, "guard": ["true"], "body": body}
    return prog, goals, len(vs) <= 2 and extra >= 0.5


def delay_line_program(rng):
    """acyclic systems with delayed copies (x = y; y = w; w = c): closed forms that only hold from a later iteration on,
    accumulators over products of delayed values, higher moments"""
    k = rng.choice([2, 3, 4, 4, 5, 6])
    chain = ["x", "y", "w", "v", "u", "t"][:k]
    consts = rng.sample([1, 2, 3, 5, 7, -1], k) if rng.random() < 0.4 else [0] * k
    init = [["assign", v, num(c)] for v, c in zip(chain, consts)] + [["assign", "z", num(0)]]
    rng.shuffle(init)
    copies = [["assign", chain[i], var(chain[i + 1])] for i in range(k - 1)]
    last = rng.random()
    if last < 0.25:
        tail = ["assign", chain[-1], num(rng.choice([0, 2, 4]))]
    elif last < 0.8:
        tail = ["assign", chain[-1], ["choice", [[num(rng.choice([0, 1])), "1/2"], [num(rng.choice([2, 3])), None]]]]
    else:
        tail = ["assign", chain[-1], ["add", var(chain[-1]), num(1)]]
    if rng.random() < 0.3:
        copies.reverse()
    r = rng.random()
    if r < 0.5:
        acc = ["assign", "z", ["add", var("z"), ["mul", var(chain[0]), var(chain[1])]]]
    elif r < 0.8:
        acc = ["assign", "z", ["add", var("z"), var(chain[0])]]
    else:
        acc = ["assign", "z", ["add", ["mul", num(rng.choice([2, "1/2"])), var("z")], var(chain[0])]]
    body = copies + [tail]
    body.insert(rng.choice([0, 0, len(body)]), acc)
    goals = ["z", chain[0]] + (["z**2"] if rng.random() < 0.5 else []) + ([f"{chain[0]}*{chain[1]}"] if rng.random() < 0.4 else []) \
        + [f"{chain[0]}**2"]
    goals = [f"{chain[0]}**2"] + [g for g in goals[:-1]]
    return {"types": [], "init": init, "guard": ["true"], "body": body}, goals


def modular_counter_program(rng):
    """`while true` loops over 0/1 variables that need no auxiliary types (so that they are also analysable with declared types
    only): toggles under a coin, counters modulo 2 whose intermediate value leaves {0,1} (x = x + f; x = x*(2 - x))"""
    p1 = gen.fstr(rng.choice(gen.PROB_POOL))
    init = [["assign", "x", num(rng.choice([0, 1]))], ["assign", "y", num(0)], ["assign", "f", num(0)]]
    body = [["assign", "f", ["draw", "Bernoulli", [num(p1)]]]]
    kind = rng.choice(["wrap", "wrap", "toggle", "double", "wrap-toggle"])
    if kind in ("wrap", "wrap-toggle"):
        body += [["assign", "x", ["add", var("x"), var("f")]], ["assign", "x", ["mul", var("x"), ["sub", num(2), var("x")]]]]
    if kind in ("toggle", "wrap-toggle"):
        body += [["if", [[["cmp", var("f"), "==", num(1)], [["assign", "x", ["sub", num(1), var("x")]]]]], None]]
    if kind == "double":
        body += [["assign", "x", ["sub", num(1), var("x")]],
                 ["if", [[["cmp", var("f"), "==", num(1)], [["assign", "x", ["sub", num(1), var("x")]]]]], None]]
    acc = rng.choice([var("x"), ["mul", var("x"), var("f")], ["pow", var("x"), 2], ["add", var("x"), var("f")]])
    body.append(["assign", "y", ["add", var("y"), acc]])
    goals = ["x", "y"] + (["x*f"] if rng.random() < 0.3 else []) + (["y**2"] if rng.random() < 0.3 else [])
    return {"types": [], "init": init, "guard": ["true"], "body": body}, goals


def categorical_program(rng):
    """top-level categorical assignments with >= 3 branches (the shape transform_categoricals rewrites), conditions on them"""
    k = rng.choice([3, 3, 4])
    probs = gen.rand_probs(rng, k)
    vals = rng.sample([0, 1, 2, 3, 4, 5], k)
    init = [["assign", "c", num(rng.choice(vals))], ["assign", "x", num(rng.choice([0, 1, 2]))], ["assign", "y", num(0)]]
    items = [[num(v), gen.fstr(p)] for v, p in zip(vals, probs)]
    if rng.random() < 0.5:
        items[-1][1] = None
    body = [["assign", "c", ["choice", items]]]
    k2 = rng.choice([2, 3, 3])
    p2 = gen.rand_probs(rng, k2)
    steps = rng.sample([-2, -1, 0, 1, 2, 3], k2)
    it2 = [[["add", var("x"), num(st)] if st else var("x"), gen.fstr(p)] for st, p in zip(steps, p2)]
    if rng.random() < 0.5:
        it2[-1][1] = None
    if rng.random() < 0.35:
        # symbolic probabilities p, q (and the last one omitted): closed forms in the parameters
        for i, name in zip(range(k2 - 1), ["p", "q"]):
            it2[i][1] = name
        it2[-1][1] = None
    if rng.random() < 0.3:
        symbolic = any(isinstance(pr, str) and pr in ("p", "q") for _, pr in it2)
        gen.compound_probability(it2 if symbolic or rng.random() < 0.5 else items, rng)
    body.append(["assign", "x", ["choice", it2]])
    r = rng.random()
    if r < 0.5:
        body.append(["if", [[["cmp", var("c"), "==", num(vals[0])], [["assign", "y", ["add", var("y"), var("x")]]]],
                            [["cmp", var("c"), rng.choice(["==", ">="]), num(vals[1])], [["assign", "y", ["sub", var("y"), num(1)]]]]],
                     [["assign", "y", ["add", var("y"), var("c")]]] if rng.random() < 0.6 else None])
    elif r < 0.75:
        # a power of c that has to be rewritten through its value set (as many factors as c has values, or one less)
        body.append(["assign", "y", ["add", var("y"), ["pow", var("c"), k if rng.random() < 0.5 else 2]]])
    else:
        # an if/elif/else chain whose first branch can never be taken; every branch assigns the same variable
        dead = rng.choice([["cmp", var("c"), ">", num(max(vals))], ["cmp", var("c"), "<", num(min(vals))], ["cmp", var("c"), "==", num(max(vals) + 1)]])
        body.append(["if", [[dead, [["assign", "y", ["add", var("y"), num(10)]]]],
                            [["cmp", var("c"), "==", num(vals[0])], [["assign", "y", ["add", var("y"), num(1)]]]]],
                     [["assign", "y", ["sub", var("y"), num(1)]]]])
        body.append(["assign", "z", ["add", var("z"), var("y")]])
        init.append(["assign", "z", num(0)])
    goals = ["x", "y", "c"] + (["x**2"] if rng.random() < 0.4 else []) + (["c**2"] if rng.random() < 0.3 else [])
    if any(isinstance(pr, str) and pr in ("p", "q") for _, pr in it2) and rng.random() < 0.5:
        # the probabilities are constants of the program (initial block), not free parameters
        init += [["assign", "p", num(Fraction(1, 3))], ["assign", "q", num(Fraction(1, 4))]]
    if rng.random() < 0.4:
        # a second, independent choice with the same list of probabilities as the first one; joint moments
        it3 = [[["add", var("w"), num(st)] if st else var("w"), pr] for st, (_, pr) in zip(rng.sample([-1, 0, 1, 2, 4], len(it2)), it2)]
        init.append(["assign", "w", num(0)])
        body.insert(2, ["assign", "w", ["choice", it3]])
        goals = ["x*w"] + goals
    prog = {"types": [], "init": init, "guard": ["true"], "body": body}
    return prog, goals


def branchy_program(rng):
    prog = gen.gen_c05_program(rng)
    names = sorted({s[1] for s in prog["init"] if s[0] == "assign"})
    goals = []
    for _ in range(rng.choice([1, 2, 3])):
        v = rng.choice(names)
        goals.append(v if rng.random() < 0.5 else (f"{v}**2" if rng.random() < 0.6 else f"{v}*{rng.choice(names)}"))
    return prog, sorted(set(goals))


def _program_choice(rng):
    r = rng.random()
    if r < 0.2:
        cor = c20.corpus()["ok"]
        path = rng.choice(sorted(cor))
        goals = rng.sample(cor[path]["goals"], min(len(cor[path]["goals"]), rng.choice([1, 2, 2])))
        return {"path": path}, goals, path, None, None
    if r < 0.3:
        prog, goals = delay_line_program(rng)
        text = render_program(prog, rng.choice(["frac", "frac", "minimal"]))
        return {"text": text}, goals[:1] + rng.sample(goals[1:], min(len(goals) - 1, 2)), "dly:" + hashlib.sha256(text.encode()).hexdigest()[:10], "delay", prog
    if r < 0.5:
        prog, goals, squares = linear_system_program(rng)
        text = render_program(prog, rng.choice(["frac", "frac", "minimal"]))
        keep = ["s"] if "s" in goals else []      # the accumulator's system contains every root multiplicity of the program
        goals = keep + rng.sample([g for g in goals if g not in keep], min(len(goals) - len(keep), 2 - len(keep)))
        if squares and rng.random() < 0.3:
            goals.append(f"{goals[0]}**2")
        # three-variable blocks have cubic characteristic polynomials whose roots sympy keeps as CRootOf objects
        return {"text": text}, goals, "lin:" + hashlib.sha256(text.encode()).hexdigest()[:10], ("cubic" if "z" in text.split("while")[0] else "linear"), prog
    if r < 0.7:
        prog, goals = categorical_program(rng)
        text = render_program(prog, rng.choice(["frac", "frac", "minimal"]))
        return {"text": text}, goals[:1] + rng.sample(goals[1:], min(len(goals) - 1, 2)), "cat:" + hashlib.sha256(text.encode()).hexdigest()[:10], "categorical", prog
    if r < 0.74:
        text, goals = gen.functional_branch_program(rng)
        return {"text": text}, goals, "fnb:" + hashlib.sha256(text.encode()).hexdigest()[:10], "branchy", None
    if r < 0.8:
        prog, goals = modular_counter_program(rng)
        text = render_program(prog, rng.choice(["frac", "frac", "minimal"]))
        return {"text": text}, goals, "mod:" + hashlib.sha256(text.encode()).hexdigest()[:10], "branchy", prog
    prog, goals = branchy_program(rng)
    text = render_program(prog, rng.choice(["frac", "frac", "minimal"]))
    return {"text": text}, goals, "gen:" + hashlib.sha256(text.encode()).hexdigest()[:10], "branchy", prog


CLI_FLAGS = {"transform_categoricals": "--transform_categoricals", "cond2arithm": "--cond2arithm", "numeric_roots": "--numeric_roots",
             "numeric_croots": "--numeric_croots", "disable_type_inference": "--disable_type_inference"}


def cli_flags(vec):
    """the option vector as command-line flags (solver choice and explicit types have no flag)"""
    out = [flag for k, flag in sorted(CLI_FLAGS.items()) if vec.get(k)]
    if "numeric_eps" in vec:
        out += ["--numeric_eps", repr(vec["numeric_eps"])]
    if "type_fp_iterations" in vec:
        out += ["--type_fp_iterations", str(vec["type_fp_iterations"])]
    return out


def _gen_cli_pair(rng, seed, tier):
    """the same `polar.py file [file] --goals ...` call with and without the option flags: options have to arrive through
    the argument parser exactly as they do through `settings`"""
    precise = rng.random() < 0.45
    for _ in range(40):
        program, goals, pid, kind, ast = _program_choice(rng)
        if "text" in program and not any("*" in g and "**" not in g for g in goals) and (not precise or kind in ("linear", "cubic")):
            break
    files = [program]
    if ast is not None and rng.random() < 0.4:
        sib = gen.sibling(ast, rng)
        if sib is not None:
            files.append({"text": render_program(sib, "frac")})
    bias = "linear" if kind in ("linear", "cubic") and rng.random() < 0.8 else kind
    vec = {k: v for k, v in option_vector(rng, bias).items() if not k.startswith("_")}
    if not vec:
        vec = {"cond2arithm": True}
    if precise and kind in ("linear", "cubic"):
        # a precision finer than the default has to arrive through the command line as well
        vec = {"numeric_roots": True, "numeric_eps": rng.choice([1e-16, 1e-20, 1e-30])}
        if rng.random() < 0.3:
            vec["numeric_croots"] = True
    elif vec.get("numeric_roots") or vec.get("numeric_croots"):
        vec["numeric_eps"] = rng.choice([1e-3, 1e-6, 1e-10, 1e-16, 1e-20, 1e-30])
    argv = ["--goals"] + [f"E({g})" for g in goals]
    sess = {"kind": "cli", "pid": "cli:" + pid, "files": files, "argv": argv, "options": {}, "goal_monoms": goals}
    return {"kind": "config-pair", "sessions": [sess], "ops": [{"sid": 0, "step": "main", "pre": []}], "vector": vec,
            "rng_seed": seed % 1000003, "step_cap": 30 if tier == "quick" else 60, "seed": seed}


def gen_case(seed, extra=None):
    rng = _random.Random(seed)
    tier = (extra or {}).get("tier", "quick")
    side_cli = _random.Random(f"cli|{seed}")
    if side_cli.random() < 0.12:
        return _gen_cli_pair(side_cli, seed, tier)
    nprog = rng.choice([1, 1, 1, 2, 2, 3])
    progs = [_program_choice(rng) for _ in range(nprog)]
    if nprog >= 2 and rng.random() < 0.3:
        progs.append(progs[0])
    side = _random.Random(f"sibling|{seed}")        # its own stream: the other decisions of the case do not move
    if nprog >= 2 and progs[0][4] is not None and side.random() < 0.4:
        # the second program is a sibling of the first: same names, same conditions, other value sets / parameters
        # (what a memo keyed by name or condition and kept between the programs of a process gets wrong)
        sib = gen.sibling(progs[0][4], side)
        if sib is not None:
            text = render_program(sib, side.choice(["frac", "frac", "minimal"]))
            progs[1] = ({"text": text}, progs[0][1], "sib:" + hashlib.sha256(text.encode()).hexdigest()[:10], progs[0][3], sib)
    kinds = [p[3] for p in progs]
    bias = "delay" if "delay" in kinds and rng.random() < 0.8 else rng.choice(kinds)
    vec = option_vector(rng, bias)
    sessions = []
    for program, goals, pid, _, _ast in progs:
        sessions.append({"kind": "lib", "pid": pid, "program": program, "goals": [{"monom": g, "kind": "raw"} for g in goals],
                         "api": "raw" if vec.get("_force_cyclic") or rng.random() < 0.5 else "common"})
    from .sessions import make_session
    remaining = [make_session(dict(s, options={})).step_names() for s in sessions]
    ptr = [0] * len(sessions)
    live = list(range(len(sessions)))
    interleave = rng.random() < 0.3
    ops = []
    while live:
        sid = rng.choice(live) if interleave else live[0]
        ops.append({"sid": sid, "step": remaining[sid][ptr[sid]], "pre": []})
        ptr[sid] += 1
        if ptr[sid] >= len(remaining[sid]):
            live.remove(sid)
    return {"kind": "config-pair", "sessions": sessions, "ops": ops, "vector": vec, "rng_seed": seed % 1000003,
            "step_cap": 20 if tier == "quick" else 40, "seed": seed}


# ---------------------------------------------------------------- execution
def _with_types(program, typedefs, repo):
    if "path" in program:
        with open(os.path.join(repo, program["path"])) as f:
            text = f.read()
    else:
        text = program["text"]
    if text.lstrip().startswith("types") or not typedefs:
        return None
    lines = ["types"]
    for v, vals in sorted(typedefs.items()):
        ints = []
        try:
            ints = sorted(int(x) for x in vals)
        except ValueError:
            pass
        if len(ints) >= 2 and ints == list(range(ints[0], ints[-1] + 1)) and (hash_free_coin(v, vals)):
            # the same set written as a range
            lines.append(f"    {v} : FiniteRange({ints[0]}, {ints[-1]})")
        else:
            lines.append(f"    {v} : Finite({', '.join(vals)})")
    lines.append("end")
    return {"text": "\n".join(lines) + "\n" + text}


def hash_free_coin(v, vals):
    """a deterministic coin that does not depend on PYTHONHASHSEED"""
    return hashlib.sha256((v + "|" + ",".join(vals)).encode()).digest()[0] % 2 == 0


def _rel_dev(ca, cb, upto=8):
    worst = 0.0
    for va, vb in zip(ca["vals"], cb["vals"]):
        for x, y in list(zip(va, vb))[:upto]:
            d = canon.max_rel_deviation(x, y)
            if d is None:
                return None
            worst = max(worst, d)
    return worst


def _judge_goal(vec, w, r):
    """w: result under the vector; r: result under the default vector.  -> (verdict, detail)"""
    if w["status"] != "ok" or r["status"] != "ok":
        return "na", None      # one side refused / timed out: the property speaks of goals that succeed under both
    wd, rd = w["data"], r["data"]
    numeric = bool(vec.get("numeric_roots") or vec.get("numeric_croots"))
    eq = canon.compare_closed_forms(wd["cf"], rd["cf"])
    if eq is None:
        return "inconclusive", None
    shown = {k: v for k, v in vec.items()}
    if not numeric:
        if eq is False:
            return "diff", {"what": "closed-form", "vector": shown, "under_vector": wd["cf"]["vals"][0][:7], "default": rd["cf"]["vals"][0][:7]}
        if wd["exact"] != rd["exact"]:
            return "diff", {"what": "is_exact", "vector": shown, "under_vector": wd["exact"], "default": rd["exact"]}
        return "ok", None
    if not rd["exact"]:
        return "na", None
    if eq is False and wd["exact"]:
        return "diff", {"what": "rounded-result-reported-exact", "vector": shown, "under_vector": wd["cf"]["vals"][0][:7], "default": rd["cf"]["vals"][0][:7]}
    if eq is False and vec.get("numeric_roots"):
        # "within the requested precision": every growth base of the exact closed form has an approximation within the
        # isolating-interval width numeric_eps (2*eps: the diagonal of a complex root's rectangle, midpoint rounding)
        eps = float(vec.get("numeric_eps", 1e-10))
        worst = canon.bases_within(rd["cf"].get("bases"), wd["cf"].get("bases"), eps)
        if worst is not None and worst > 2 * eps + 1e-45:
            return "diff", {"what": "root-approximation-beyond-requested-precision", "vector": shown, "numeric_eps": eps,
                            "distance": float(worst), "exact_bases": rd["cf"].get("bases"), "approximations": wd["cf"].get("bases")}
    if eq is False:
        dev = _rel_dev(wd["cf"], rd["cf"])
        if dev is not None and dev > 1e-3 and vec.get("numeric_eps", 1e-10) <= 1e-6:
            return "diff", {"what": "deviation-beyond-precision", "vector": shown, "rel_dev_n_le_7": dev,
                            "under_vector": wd["cf"]["vals"][0][:7], "default": rd["cf"]["vals"][0][:7]}
        if vec.get("numeric_roots") and canon.bases_within(rd["cf"].get("bases"), wd["cf"].get("bases"), 0) is not None:
            return "ok", {"precision_checked": True}
    return "ok", None


def _history(case, sessions):
    return {"sessions": sessions, "ops": case["ops"], "world_flags": {}, "rng_seed": case["rng_seed"], "step_cap": case["step_cap"]}


def run_case(case, extra=None):
    from . import world
    world.preload()
    cap = case.get("step_cap", 20)
    repo = os.environ.get("POLAR_REPO", "/repo")
    vec = case["vector"]
    opts = {k: v for k, v in vec.items() if not k.startswith("_")}
    out = {"kind": "config-pair", "hashseed": os.environ.get("PYTHONHASHSEED"), "notes": []}
    nops = len(case["ops"])
    tmo = min(cap * (nops + 2) + 60, 12 * cap)
    # world D: the history under the default vector
    sess_d = [dict(s, options={}) if s["kind"] == "cli" else dict(s, options={}, force_cyclic=False) for s in case["sessions"]]
    wd = world.fork_call(world.run_history, _history(case, sess_d), timeout=tmo)
    if wd.get("status") != "done":
        out["outcome"] = "harness_error" if wd.get("status") == "harness_error" else "timeout"
        out["trace"] = wd.get("trace")
        return out
    # world V: the same history under the vector (explicit types = the types world D inferred for the original variables)
    if "sessions_v" in case:
        sess_v = case["sessions_v"]
    else:
        sess_v = []
        for sid, s in enumerate(case["sessions"]):
            if s["kind"] == "cli":
                sess_v.append(dict(s, argv=list(s["argv"]) + cli_flags(vec)))
                continue
            sv = dict(s, options=dict(opts), force_cyclic=bool(vec.get("_force_cyclic")))
            if vec.get("_explicit_types"):
                tds = None
                for op, res in zip(case["ops"], wd["results"]):
                    if op["sid"] == sid and op["step"] == "normalize" and res["status"] == "ok":
                        tds = res["data"]["typedefs"]["vars"]
                newp = _with_types(s["program"], tds, repo) if tds else None
                if newp is not None:
                    sv["program"] = newp
                    sv["options"]["disable_type_inference"] = True
                    sv["explicit_types"] = True
            sess_v.append(sv)
        case["sessions_v"] = sess_v
    wv = world.fork_call(world.run_history, _history(case, sess_v), timeout=tmo)
    if wv.get("status") != "done":
        out["outcome"] = "harness_error" if wv.get("status") == "harness_error" else "timeout"
        out["trace"] = wv.get("trace")
        return out
    problems = []
    stats = {"compared": 0, "ok": 0, "na": 0, "inconclusive": 0, "precision_checked": 0}
    pairs = []
    for oi, (op, rv, rd) in enumerate(zip(case["ops"], wv["results"], wd["results"])):
        if op["step"] == "main" and rv["status"] == "ok" and rd["status"] == "ok":
            sess = sess_v[op["sid"]]
            for fi, (fv, fd) in enumerate(zip(rv["data"]["per_file"], rd["data"]["per_file"])):
                if fv.get("status") != "ok" or fd.get("status") != "ok":
                    stats["na"] += 1
                    continue
                gv, gd = fv["data"]["goals"], fd["data"]["goals"]
                for key in sorted(set(gv) & set(gd)):
                    if gv[key].get("cf") is None or gd[key].get("cf") is None:
                        continue
                    verdict, detail = _judge_goal(vec, {"status": "ok", "data": gv[key]}, {"status": "ok", "data": gd[key]})
                    stats["compared"] += 1
                    if verdict == "diff":
                        problems.append(dict(detail, op=oi, sid=op["sid"], goal=key, file=fi, pid=sess.get("pid"), session_kind="cli",
                                             argv=sess["argv"]))
                    elif verdict == "ok":
                        stats["ok"] += 1
                        stats["precision_checked"] += 1 if detail else 0
                        pairs.append((sess.get("pid"), json.dumps(vec, sort_keys=True), key))
                    elif verdict == "na":
                        stats["na"] += 1
                    else:
                        stats["inconclusive"] += 1
            continue
        if not op["step"].startswith("goal:"):
            continue
        sess = sess_v[op["sid"]]
        goal = sess["goals"][int(op["step"].split(":")[1])]
        verdict, detail = _judge_goal(dict(vec, **({"_explicit_types": True} if sess.get("explicit_types") else {})), rv, rd)
        stats["compared"] += 1
        if verdict == "diff":
            problems.append(dict(detail, op=oi, sid=op["sid"], goal=goal["monom"], pid=sess.get("pid"), session_kind="lib"))
        elif verdict == "ok":
            stats["ok"] += 1
            stats["precision_checked"] += 1 if detail else 0
            pairs.append((sess.get("pid"), json.dumps(vec, sort_keys=True), goal["monom"]))
        elif verdict == "na":
            stats["na"] += 1
        else:
            stats["inconclusive"] += 1
    sig_v, sig_d, solvers = {}, {}, set()
    for op, rv, rd in zip(case["ops"], wv["results"], wd["results"]):
        if op["step"] == "normalize":
            if rv["status"] == "ok":
                sig_v[op["sid"]] = (rv["data"].get("normalized_sig"), rv["data"].get("n_body"))
            if rd["status"] == "ok":
                sig_d[op["sid"]] = (rd["data"].get("normalized_sig"), rd["data"].get("n_body"))
        if op["step"].startswith("goal:") and rv["status"] == "ok":
            solvers.add(rv["data"].get("solver"))
    statuses = [r["status"] for r in wv["results"]]
    out.update({
        "outcome": "violation" if problems else "ok",
        "problems": problems[:5],
        "stats": stats,
        "n_ops": 2 * nops,
        "statuses": {s: statuses.count(s) for s in set(statuses)},
        "had_timeout": any(r["status"] == "timeout" for r in wv["results"] + wd["results"]),
        "pairs": sorted(set(pairs)),
        "vectors": [json.dumps(vec, sort_keys=True)],
        "probes": {
            "normal_forms_differ": 1 if any(sig_v.get(k) != sig_d.get(k) for k in sig_v if k in sig_d) else 0,
            "cyclic_solver_used": 1 if "CyclicSolver" in solvers else 0,
            "explicit_types_resolved": sum(1 for s in sess_v if s.get("explicit_types")),
            "numeric_vector": 1 if (vec.get("numeric_roots") or vec.get("numeric_croots")) else 0,
            "multi_program_history": 1 if len(case["sessions"]) > 1 else 0,
            "transform_categoricals_vector": 1 if vec.get("transform_categoricals") else 0,
            "cond2arithm_vector": 1 if vec.get("cond2arithm") else 0,
            "force_cyclic_vector": 1 if vec.get("_force_cyclic") else 0,
            "cli_pair": 1 if case["sessions"][0]["kind"] == "cli" else 0,
            "root_precision_checked": stats["precision_checked"],
            "fine_numeric_eps": 1 if float(vec.get("numeric_eps", 1)) < 1e-10 else 0,
        },
        "digest": hashlib.sha256(json.dumps({"ops": case["ops"], "v": [c20._strip(r) for r in wv["results"]],
                                             "d": [c20._strip(r) for r in wd["results"]]}, sort_keys=True, default=str).encode()).hexdigest()[:16],
    })
    desc = describe(case, problems[0] if problems else {})
    if problems:
        out["text"] = desc
    else:
        out["case_desc"] = desc
    return out


def describe(case, problem):
    lines = [f"option vector {case['vector']} versus the default vector; history of {len(case['sessions'])} program(s)"]
    for i, s in enumerate(case["sessions"]):
        if s["kind"] == "cli":
            lines.append(f"  polar.py {' '.join(f.get('path', '<inline>') for f in s['files'])} {' '.join(s['argv'])}  [+ {' '.join(cli_flags(case['vector']))}]")
            for f in s["files"]:
                if "text" in f:
                    lines += ["      " + l for l in f["text"].splitlines()] + ["      --"]
            continue
        src = s["program"].get("path") or "<inline>"
        lines.append(f"  program {i}: {src} goals={[g['monom'] for g in s['goals']]} api={s.get('api')}")
        if "text" in s["program"]:
            lines += ["      " + l for l in s["program"]["text"].splitlines()]
    lines.append("  schedule: " + " ".join(f"{o['sid']}:{o['step']}" for o in case["ops"]))
    if problem:
        lines.append(f"  deviating: program {problem.get('sid')} goal {problem.get('goal')}")
    return "\n".join(lines)


def vclass(res):
    if res.get("outcome") != "violation":
        return None
    return "c17:" + str(res["problems"][0].get("what"))


def finding_signature(res, case):
    return {"class": vclass(res)}


def describe_violation(res):
    return json.dumps(res["problems"][0], default=str)[:900]


def _variants(case, bad_sid, bad_goal):
    def fresh(c):
        c.pop("sessions_v", None)
        return c

    sids = sorted({o["sid"] for o in case["ops"]})
    for sid in sids:
        if sid != bad_sid:
            c = fresh(copy.deepcopy(case))
            c["ops"] = [o for o in c["ops"] if o["sid"] != sid]
            yield c
    c = fresh(copy.deepcopy(case))
    c["ops"] = sorted(c["ops"], key=lambda o: o["sid"])
    if c["ops"] != case["ops"]:
        yield c
    for i, o in enumerate(case["ops"]):
        if o["step"].startswith("goal:") and not (o["sid"] == bad_sid and case["sessions"][o["sid"]]["goals"][int(o["step"].split(":")[1])]["monom"] == bad_goal):
            c = fresh(copy.deepcopy(case))
            del c["ops"][i]
            yield c
    for k in list(case["vector"]):
        if len(case["vector"]) > 1:
            c = fresh(copy.deepcopy(case))
            del c["vector"][k]
            yield c


def shrink(case, extra=None):
    base = run_case(case)
    cls = vclass(base)
    if cls is None:
        return {"outcome": "not_reproduced", "case": case, "result": base}
    cur, curres = copy.deepcopy(case), base
    steps = 0
    improved = True
    while improved and steps < 40:
        improved = False
        p0 = curres["problems"][0]
        for cand in _variants(cur, p0.get("sid"), p0.get("goal")):
            steps += 1
            r = run_case(cand)
            if vclass(r) == cls:
                cur, curres = cand, r
                improved = True
                break
            if steps >= 40:
                break
    return {"outcome": "shrunk", "case": cur, "result": curres, "steps": steps, "class": cls}


def summarize(results, tier):
    from collections import Counter
    oc = Counter(r.get("outcome") for r in results)
    probes = Counter()
    stats = Counter()
    triples = set()
    vectors = set()
    hashseeds = set()
    ops = 0
    status = Counter()
    samples = []
    for r in results:
        if r.get("outcome") not in ("ok", "violation"):
            continue
        for k, v in (r.get("probes") or {}).items():
            probes[k] += v
        for k, v in (r.get("stats") or {}).items():
            stats[k] += v
        for p in r.get("pairs") or []:
            triples.add(tuple(p))
        vectors.update(r.get("vectors") or [])
        hashseeds.add(r.get("hashseed"))
        ops += r.get("n_ops", 0)
        for k, v in (r.get("statuses") or {}).items():
            status[k] += v
        if len(samples) < 3 and r.get("case_desc") and (r.get("stats") or {}).get("ok", 0) >= 2:
            samples.append(r["case_desc"])
    return {
        "evaluations": len(results),
        "distinct_nontrivial": len(triples),
        "rule": "one case = one history of 1-4 analyses (programs x goals) executed twice in pristine interpreters: under a swarm-drawn "
                "option vector applied through the real global `settings` (12 % of the cases: through the flags of the real `polar.main()` "
                "on one or two files), and under the default vector, same schedule; every goal result is compared; under numeric_roots the "
                "growth bases of the rounded closed form are additionally compared with those of the exact one at the requested numeric_eps "
                "(down to 1e-30); distinct_nontrivial = distinct (program, option vector, goal) triples for which both sides succeeded and "
                "were compared",
        "samples": samples or [{"note": "no sample recorded"}],
        "outcomes": dict(oc),
        "goal_comparisons": dict(stats),
        "distinct_option_vectors": len(vectors),
        "logical_time_ops": ops,
        "op_statuses_under_vector": dict(status),
        "probes": dict(sorted(probes.items())),
        "distinct_world_hashseeds": len(hashseeds),
        "real_components": ["settings (global seam)", "inputparser (transform_categoricals)", "program.normalize_program (cond2arithm, type inference, "
                            "disable_type_inference)", "recurrences.solver.RecurrenceSolver / CyclicSolver / AcyclicSolver", "utils.expressions.get_all_roots",
                            "polar.main / cli.argument_parser (CLI pairs)"],
        "stubbed_components": ["none"],
    }


REQUIRED = ["normal_forms_differ", "cyclic_solver_used", "numeric_vector", "explicit_types_resolved", "multi_program_history",
            "transform_categoricals_vector", "cond2arithm_vector", "force_cyclic_vector", "cli_pair", "root_precision_checked"]


def probe_failures(cov):
    return [p for p in REQUIRED if cov["probes"].get(p, 0) == 0]
