"""Sessions: user-level analysis tasks performed step by step through Polar's public API.

A session is described by a JSON spec and executed one *step* at a time so that the scheduler can
interleave other sessions and perturbations between any two API steps.  Every step returns a
canonical, JSON-serialisable result:

    {"status": "ok", "data": {...}} | {"status": "refused", "etype": "NormalizingException"} |
    {"status": "timeout"} | {"status": "skipped"}
"""
import io
import os
import re
import signal
import sys
import time
from argparse import Namespace
from contextlib import redirect_stdout, redirect_stderr

from . import seams
from .canon import canon_closed_form, canon_typedefs, unlimited_ints

ANSI = re.compile(r"\x1b\[[0-9;]*m")


class StepTimeout(BaseException):
    """raised by the step alarm; a BaseException so that `except Exception` inside sympy cannot swallow it"""


def _alarm(signum, frame):
    raise StepTimeout()


def full_namespace(**over):
    ns = dict(
        benchmarks=[], at_n=-1, simulate=False, invariants=False, simulation_iter=100, number_samples=100, goals=[],
        gram_charlier="", gram_charlier_order=4, cornish_fisher="", cornish_fisher_order=4, plot="", states_plot=False,
        plot_expectation=False, plot_std=False, max_y=None, anim_iter=False, anim_runs=False, anim_time=10.0,
        anim_iterations=False, yscale="linear", save=False, tail_bound_moments=2, after_loop=False,
        solvability_check=False, synth_unsolv_inv=None, inv_deg=2, bif_to_prob=None, sample_time_until=None,
        exact_inference=None, sensitivity_analysis=None, sensitivity_analysis_diff=None, synth_solv_loop=None,
    )
    ns.update(seams.OPTION_DEFAULTS)
    ns.update(over)
    return Namespace(**ns)


def _sanitize_ids(s):
    # E(x*y) as an indeterminate of an invariant -> a plain symbol name
    return re.sub(r"\b([Eck]\d*)\(([^()]*)\)", lambda m: "G_" + m.group(1) + "_" + re.sub(r"[^A-Za-z0-9]", "_", m.group(2)) + "_", s)


def parse_goal_output(text):
    with unlimited_ints():
        return _parse_goal_output(text)


def _parse_goal_output(text):
    """Parse the lines GoalsAction prints.  Returns {"goals": {id: {"cf":…, "exact":bool}}, "invariants": [...]|None}"""
    text = ANSI.sub("", text)
    goals = {}
    invariants = None
    in_inv = False
    last = None
    bound_key = None
    for line in text.splitlines():
        line = line.rstrip()
        # Bayesian-network queries: "E(V**k | A = a) = 121/125 ≈ 0.968", "The expected number of samples until ... is EXPR ≈ ..."
        if " ≈ " in line and (line.startswith("E(") or line.startswith("The expected number of samples until")):
            body = line.rsplit(" ≈ ", 1)[0]
            if line.startswith("E("):
                key, val = body.split(") = ", 1)
                key = "BN:" + key.replace(" ", "") + ")"
            else:
                key, val = body.split(" is ", 1)
                key = "BN:until:" + key[len("The expected number of samples until"):].replace(" ", "")
            try:
                goals[key] = {"cf": canon_closed_form(None, pieces=[val.strip()]), "exact": None}
            except Exception as e:  # noqa
                goals[key] = {"cf": {"vals": [["!" + type(e).__name__], ["!"]], "free": []}, "exact": None}
            continue
        # tail bounds: "P(x >= a) <= minimum of" followed by indented "(k) bound" lines; "P(x > a) >= bound"
        if line.startswith("P(") and line.endswith("minimum of") and "| n=" not in line:
            bound_key = "P:" + line[: -len("minimum of")].strip().replace(" ", "")
            goals[bound_key] = {"cf": None, "exact": None, "bounds": []}
            last = bound_key
            continue
        if bound_key and re.match(r"^\s+\(\d+\) ", line):
            expr = line.split(") ", 1)[1]
            if "≅" not in expr:
                try:
                    goals[bound_key]["bounds"].append(canon_closed_form(None, pieces=[p.strip() for p in expr.split("; ")]))
                except Exception as e:  # noqa
                    goals[bound_key]["bounds"].append({"vals": [["!" + type(e).__name__], ["!"]], "free": []})
            continue
        if line.startswith("P(") and " >= " in line and "| n=" not in line and not line.endswith("minimum of"):
            lhs, rhs = line.rsplit(" >= ", 1)
            key = "P:" + lhs.replace(" ", "") + ">="
            try:
                goals[key] = {"cf": canon_closed_form(None, pieces=[p.strip() for p in rhs.split("; ")]), "exact": None}
            except Exception as e:  # noqa
                goals[key] = {"cf": {"vals": [["!" + type(e).__name__], ["!"]], "free": []}, "exact": None}
            last = key
            bound_key = None
            continue
        if line and not line.startswith(" "):
            bound_key = bound_key if line.startswith(("Solution", "Assuming")) else None
        if "-   Invariants    -" in line:
            in_inv = True
            invariants = []
            continue
        if in_inv:
            if line.endswith(" = 0"):
                invariants.append(_sanitize_ids(line[:-4].strip()))
            continue
        if line.startswith("Solution is exact"):
            if last:
                goals[last]["exact"] = True
            continue
        if line.startswith("Solution is rounded"):
            if last:
                goals[last]["exact"] = False
            continue
        if " = " in line and not line.startswith(("Assuming", "P(", "Elapsed", " ")) and "| n=" not in line.split(" = ")[0]:
            lhs, rhs = line.split(" = ", 1)
            lhs = lhs.strip()
            if not re.match(r"^(∂?[Eck]\d*\(.*\)|∂?[A-Za-z_][A-Za-z0-9_*+\- ]*)$", lhs):
                continue
            pieces = [p.strip() for p in rhs.split("; ")]
            try:
                cf = canon_closed_form(None, pieces=pieces)
            except Exception as e:  # noqa
                cf = {"vals": [["!" + type(e).__name__], ["!"]], "free": []}
            goals[lhs.replace(" ", "")] = {"cf": cf, "exact": None}
            last = lhs.replace(" ", "")
    if any(k.startswith("BN:") for k in goals) or "The following code has been generated from the input" in text:
        # a Bayesian-network action also prints the generated program, whose variable names may contain random digits
        # (name de-duplication draws from `random`): only the query answers are results
        goals = {k: v for k, v in goals.items() if k.startswith("BN:")}
    return {"goals": goals, "invariants": invariants}


class LibSession:
    """Parser -> normalize_program -> RecBuilder -> per goal get_recurrences / RecurrenceSolver / get."""

    def __init__(self, spec):
        self.spec = spec
        self.program = None
        self.rb = None
        self.solvers = {}
        self.dead = False
        self.closed = {}

    def step_names(self):
        names = ["parse", "normalize"]
        names += [f"goal:{i}" for i in range(len(self.spec.get("goals", [])))]
        if self.spec.get("invariants"):
            names.append("invariants")
        return names

    def do(self, name):
        from symengine.lib.symengine_wrapper import sympify

        spec = self.spec
        if name == "parse":
            from inputparser import Parser
            src = spec["program"]
            if "path" in src:
                self.program = Parser().parse_file(os.path.join(os.environ.get("POLAR_REPO", "/repo"), src["path"]))
            else:
                self.program = Parser().parse_string(src["text"])
            return {}
        if name == "normalize":
            from program import normalize_program
            from recurrences import RecBuilder
            self.program = normalize_program(self.program)
            self.rb = RecBuilder(self.program)
            with unlimited_ints():
                sig = _norm_sig(self.program)
            return {"typedefs": canon_typedefs(self.program), "n_body": len(self.program.loop_body), "normalized_sig": sig}
        if name.startswith("goal:"):
            g = spec["goals"][int(name.split(":")[1])]
            api = spec.get("api", "raw")
            monom = sympify(g["monom"])
            kind = g.get("kind", "raw")
            if kind == "raw" and api == "raw":
                from recurrences.solver import RecurrenceSolver
                rec = self.rb.get_recurrences(monom)
                solver = RecurrenceSolver(rec, force_cyclic_solver=bool(spec.get("force_cyclic")))
                moment = solver.get(monom)
                exact = solver.is_exact
                solver_kind = type(solver.solver).__name__
            elif kind == "raw":
                from cli.common import get_moment
                moment, exact = get_moment(monom, self.solvers, self.rb, Namespace(solvability_check=bool(spec.get("solvability_check"))), self.program)
                solver_kind = type(self.solvers[monom].solver).__name__ if monom in self.solvers else "?"
            elif kind in ("central", "cumulant"):
                from cli.common import get_all_moments
                from utils import raw_moments_to_cumulants, raw_moments_to_centrals
                moments, exact = get_all_moments(monom, g["order"], self.solvers, self.rb, Namespace(solvability_check=False), self.program)
                conv = raw_moments_to_centrals if kind == "central" else raw_moments_to_cumulants
                moment = conv(moments)[g["order"]]
                solver_kind = "?"
            elif kind == "after_loop":
                from cli.common import get_moment_given_termination, transform_to_after_loop
                mgt, exact = get_moment_given_termination(monom, self.solvers, self.rb, Namespace(solvability_check=False), self.program)
                moment = transform_to_after_loop(mgt)
                solver_kind = "?"
            else:
                raise ValueError(kind)
            self.closed[g["monom"]] = moment
            return {"cf": canon_closed_form(moment), "exact": bool(exact), "solver": solver_kind}
        if name == "invariants":
            from invariants import InvariantIdeal
            # indeterminates are named after the goal monomials, so that a permuted goal list denotes the same ideal
            cfs = {"g_" + re.sub(r"[^A-Za-z0-9]", "_", g["monom"]): self.closed[g["monom"]] for g in spec["goals"] if g["monom"] in self.closed}
            basis = InvariantIdeal(cfs).compute_basis()
            with unlimited_ints():
                return {"basis": sorted(str(b) for b in basis)}
        raise ValueError(name)


def _norm_sig(program):
    """coarse signature of the normalised program: statement kinds only (used by C17 probes)"""
    return ",".join(type(a).__name__[0] + ("c" if type(a.condition).__name__ != "TrueCond" else "") for a in program.loop_body)


class ActionSession:
    """One cli Action object built from a complete Namespace and called on several benchmark files."""

    def __init__(self, spec):
        self.spec = spec
        self.action = None
        self.dead = False

    def step_names(self):
        return ["create"] + [f"file:{i}" for i in range(len(self.spec["files"]))]

    def do(self, name):
        spec = self.spec
        if name == "create":
            from cli.actions import ActionFactory
            ns = full_namespace(**spec["namespace"])
            ns.benchmarks = list(spec["files"])
            self.action = ActionFactory.create_action(ns)
            return {"action": type(self.action).__name__}
        i = int(name.split(":")[1])
        path = _materialize(spec["files"][i])
        buf = io.StringIO()
        with redirect_stdout(buf), redirect_stderr(io.StringIO()):
            self.action(path)
        return parse_goal_output(buf.getvalue())


def _materialize(f):
    if isinstance(f, dict):
        if "path" in f:
            return os.path.join(os.environ.get("POLAR_REPO", "/repo"), f["path"])
        d = os.environ.get("VERIF_SCRATCH", "/dev/shm")
        import hashlib
        p = os.path.join(d, "prog-" + hashlib.sha256(f["text"].encode()).hexdigest()[:12] + ".prob")
        if not os.path.exists(p):
            with open(p, "w") as fh:
                fh.write(f["text"])
        return p
    return f


class CliSession:
    """The real polar.main() with a patched sys.argv.  A hook wrapped around the Action lets the
    scheduler act between benchmark files, exactly where a multi-file CLI run switches programs."""

    def __init__(self, spec):
        self.spec = spec
        self.dead = False
        self.results = None

    def step_names(self):
        return ["main"]

    def do(self, name, between=None):
        import polar
        from cli.actions import ActionFactory

        spec = self.spec
        files = [_materialize(f) for f in spec["files"]]
        argv = ["polar.py"] + files + list(spec["argv"])
        per_file = []
        orig_create = ActionFactory.create_action

        def create(cli_args):
            action = orig_create(cli_args)

            def wrapped(benchmark):
                idx = len(per_file)
                if between is not None and idx > 0:
                    between(idx)
                buf = io.StringIO()
                try:
                    with redirect_stdout(buf), redirect_stderr(io.StringIO()):
                        action(benchmark)
                except StepTimeout:
                    per_file.append({"status": "timeout"})
                    raise
                except Exception as e:  # noqa
                    per_file.append({"status": "refused", "etype": type(e).__name__, "msg": str(e)[:200]})
                    raise
                per_file.append({"status": "ok", "data": parse_goal_output(buf.getvalue())})

            return wrapped

        ActionFactory.create_action = staticmethod(create)
        old_argv = sys.argv
        sys.argv = argv
        try:
            with redirect_stdout(io.StringIO()), redirect_stderr(io.StringIO()):
                try:
                    polar.main()
                except StepTimeout:
                    raise
                except SystemExit:
                    pass
                except Exception:  # noqa
                    pass
        finally:
            sys.argv = old_argv
            ActionFactory.create_action = orig_create
        while len(per_file) < len(files):
            per_file.append({"status": "not_reached"})
        return {"per_file": per_file}


def make_session(spec):
    k = spec["kind"]
    if k == "lib":
        return LibSession(spec)
    if k == "action":
        return ActionSession(spec)
    if k == "cli":
        return CliSession(spec)
    raise ValueError(k)


def run_step(sess, name, cap, apply=True, **kw):
    """execute one step; classify the outcome.  With apply=True the session's whole option vector is written
    into `settings` first (what a user does after somebody else used the process); consecutive steps of one
    session run without re-applying, so an option that Polar itself changes during a step is seen by the next."""
    if sess.dead:
        return {"status": "skipped"}
    if apply:
        seams.apply_options(sess.spec.get("options"))
    old = signal.signal(signal.SIGALRM, _alarm)
    signal.setitimer(signal.ITIMER_REAL, cap)
    t0 = time.time()
    try:
        data = sess.do(name, **kw)
        res = {"status": "ok", "data": data}
    except StepTimeout:
        sess.dead = True
        res = {"status": "timeout"}
    except (KeyboardInterrupt, SystemExit):
        raise
    except BaseException as e:  # noqa
        # a refusal ends the session (a failed parse/normalise leaves nothing to ask goals of);
        # a refused goal leaves the session usable, as it does for a library user
        if name in ("parse", "normalize", "create", "main"):
            sess.dead = True
        res = {"status": "refused", "etype": type(e).__name__, "msg": str(e)[:160]}
    finally:
        signal.setitimer(signal.ITIMER_REAL, 0)
        signal.signal(signal.SIGALRM, old)
    res["wall"] = round(time.time() - t0, 3)
    return res
