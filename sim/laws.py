"""Laws (distributions of a single random request) and their quantile functions.

Every random request that the code under test issues at the RNG seam is turned into a Law.
A *resolution* of a request is one number u in (0,1): the request returns the u-quantile of
its law.  The reference interpreter resolves the corresponding request of *its own* law with
the same u, so equal laws give equal values whatever library routine, listing order or
post-processing (monotone non-decreasing) the implementation uses.
"""
import math
from fractions import Fraction

import numpy as np
from scipy import stats


class FiniteLaw:
    """Finite distribution over floats; points sorted by value, duplicates merged,
    zero-probability points dropped."""

    kind = "finite"

    def __init__(self, pairs):
        acc = {}
        for v, p in pairs:
            v = float(v)
            p = float(p)
            if p <= 0.0:
                continue
            # merge values equal up to float noise
            key = None
            for k in acc:
                if k == v or abs(k - v) <= 1e-12 * max(1.0, abs(k), abs(v)):
                    key = k
                    break
            if key is None:
                acc[v] = p
            else:
                acc[key] += p
        self.points = sorted(acc.items())
        self.total = sum(p for _, p in self.points)

    def is_point_mass(self):
        return len(self.points) == 1

    def normalized(self):
        t = self.total if self.total > 0 else 1.0
        return [(v, p / t) for v, p in self.points]

    def quantile(self, u):
        pts = self.normalized()
        c = 0.0
        for v, p in pts:
            c += p
            if u <= c:
                return v
        return pts[-1][0]

    def outcome_index(self, u):
        pts = self.normalized()
        c = 0.0
        for i, (v, p) in enumerate(pts):
            c += p
            if u <= c:
                return i
        return len(pts) - 1

    def mid_quantile_of(self, idx):
        """a u strictly inside the CDF interval of outcome idx"""
        pts = self.normalized()
        c = 0.0
        for i, (v, p) in enumerate(pts):
            if i == idx:
                return c + p / 2.0
            c += p
        return 1.0 - pts[-1][1] / 2.0

    def moment(self, k):
        return sum((v**k) * p for v, p in self.normalized())

    def describe(self):
        return {"kind": "finite", "points": [[v, round(p, 12)] for v, p in self.normalized()]}

    def same_as(self, other, tol=1e-9):
        if other.kind != "finite":
            return False
        a, b = self.normalized(), other.normalized()
        if len(a) != len(b):
            return False
        for (v1, p1), (v2, p2) in zip(a, b):
            if abs(v1 - v2) > 1e-9 * max(1.0, abs(v1)) or abs(p1 - p2) > tol:
                return False
        return True


GRID = [1e-9, 1e-6, 1e-3, 0.01, 0.05, 0.1, 0.2, 0.3, 0.4, 0.5, 0.6, 0.7, 0.8, 0.9, 0.95, 0.99, 1 - 1e-3, 1 - 1e-6, 1 - 1e-9]


class ContLaw:
    """Continuous law backed by a frozen scipy.stats distribution (used as a math library:
    only cdf/ppf/moment are called, never rvs)."""

    kind = "cont"

    def __init__(self, name, args=(), kwds=None):
        self.name = name
        self.args = tuple(float(a) for a in args)
        self.kwds = {k: float(v) for k, v in (kwds or {}).items()}
        self.frozen = getattr(stats, name)(*self.args, **self.kwds)

    def is_point_mass(self):
        return False

    def quantile(self, u):
        return float(self.frozen.ppf(u))

    def quantile_upper(self, u):
        """the (1-u)-quantile, computed through the inverse survival function (exact also for tiny u)"""
        return float(self.frozen.isf(u))

    def cdf(self, x):
        return float(self.frozen.cdf(x))

    def support(self):
        a, b = self.frozen.support()
        return float(a), float(b)

    def moment(self, k):
        return float(self.frozen.moment(k))

    def describe(self):
        return {"kind": "cont", "name": self.name, "args": list(self.args), "kwds": dict(sorted(self.kwds.items()))}

    def same_as(self, other, tol=1e-9):
        if other.kind != "cont":
            return False
        for u in GRID:
            x = other.quantile(u)
            if not math.isfinite(x):
                return False
            if abs(self.cdf(x) - u) > tol + 1e-6 * min(u, 1 - u):
                return False
        sa, sb = self.support(), other.support()
        for x, y in zip(sa, sb):
            if math.isinf(x) or math.isinf(y):
                if x != y:
                    return False
            elif abs(x - y) > 1e-9 * max(1.0, abs(x)):
                return False
        return True


def law_from_scipy(dist, args, kwds):
    """Turn a scipy `dist.rvs(*args, **kwds)` call into a Law (dist is an rv_generic)."""
    kw = {k: v for k, v in kwds.items() if k not in ("size", "random_state")}
    name = dist.name
    frozen = dist(*args, **kw)
    if isinstance(dist, stats.rv_discrete):
        a, b = frozen.support()
        if math.isfinite(a) and math.isfinite(b) and b - a <= 4096:
            ks = np.arange(int(a), int(b) + 1)
            return FiniteLaw(zip(ks.tolist(), frozen.pmf(ks).tolist()))
        raise NotImplementedError(f"unbounded discrete law {name}")
    law = ContLaw.__new__(ContLaw)
    law.name = name
    law.args = tuple(float(a) for a in args)
    law.kwds = {k: float(v) for k, v in kw.items()}
    law.frozen = frozen
    return law


def frac(x):
    return x if isinstance(x, Fraction) else Fraction(x)
