"""C12 — lock-step of Polar's real simulator / samplers against the reference interpreter under
the scripted RNG seam.  Runs inside a worker interpreter that has the Polar tree on sys.path.
"""
import hashlib
import io
import json
import math
import os
import random as _random
import tempfile
from contextlib import redirect_stdout, redirect_stderr
from fractions import Fraction

from . import rngseam, refinterp
from .laws import GRID, FiniteLaw
from .past import render_program
from .sched import Scheduler


def _digest(obj):
    return hashlib.sha256(json.dumps(obj, sort_keys=True, default=str).encode()).hexdigest()[:16]


class LockstepController:
    """Pairs every random request of the code under test with the next request of the reference
    interpreter; both resolve at the same quantile u of their own law."""

    def __init__(self, refgen, sched):
        self.ref = refgen
        self.sched = sched
        self.mirrored = 0
        self.index_draws = 0
        self.thresholds = {}
        self.deferred = None
        self.observe_assignments = False
        self.events = []
        self.pending = None
        self.ref_result = None
        self.ref_exc = None
        self.extra_draws = 0
        self.law_mismatch = 0
        self.first_mismatch = None
        self._advance(None, first=True)

    def _advance(self, u, first=False):
        try:
            self.pending = next(self.ref) if first else self.ref.send(u)
        except StopIteration as s:
            self.pending = None
            self.ref_result = s.value
        except (refinterp.Inconclusive, refinterp.RefRefuses) as e:
            self.pending = None
            self.ref_exc = e
        except (ArithmeticError, ValueError) as e:
            # float underflow / overflow in a law parameter (e.g. a rate of 1e-400): the run cannot be judged
            self.pending = None
            self.ref_exc = refinterp.Inconclusive(f"arithmetic error in the reference: {type(e).__name__}")

    def request(self, law_p, entry):
        self.flush()
        law_r = self.pending
        if law_r is None:
            self.extra_draws += 1
            u = self.sched.choose(law_p)
            self.events.append({"entry": entry, "polar": law_p.describe(), "ref": None, "u": u})
            return u
        same = law_r.same_as(law_p)
        u = self.sched.choose(law_r, self.thresholds.get(refinterp.CTX["target"]))
        if not same:
            self.law_mismatch += 1
            if self.first_mismatch is None:
                self.first_mismatch = {"draw": len(self.events), "polar": law_p.describe(), "ref": law_r.describe()}
        self.events.append({"entry": entry, "polar": law_p.describe(), "ref": law_r.describe(), "same": same, "u": u})
        if law_r.kind == "cont" and self.observe_assignments:
            # The reference is advanced when the assignment that issued this request completes (see assignment_done):
            # the value it stores tells whether the implementation used the draw directly (u-quantile) or antithetically
            # (upper u-quantile, e.g. inverse transform with -log(U)); both push the uniform law forward to the same law.
            self.deferred = (law_r, u)
        else:
            self._advance(u)
        return u

    def assignment_done(self, value):
        if self.deferred is None:
            return
        law_r, u = self.deferred
        self.deferred = None
        lo, hi = law_r.quantile(u), law_r.quantile_upper(u)
        try:
            v = float(value)
        except Exception:  # noqa
            v = float("nan")
        if not _close(v, lo, 1.0) and _close(v, hi, 1.0):
            self.mirrored += 1
            self.events[-1]["antithetic"] = True
            self._advance(-u)
        else:
            self._advance(u)

    def flush(self):
        """a request that was not followed by the completion of an assignment resolves directly"""
        if self.deferred is not None:
            _, u = self.deferred
            self.deferred = None
            self._advance(u)

    def drain(self):
        """reference still expects draws that the code under test never made"""
        self.flush()
        n = 0
        while self.pending is not None:
            u = self.sched.choose(self.pending)
            self.events.append({"entry": None, "polar": None, "ref": self.pending.describe(), "u": u})
            self._advance(u)
            n += 1
        return n


def _polar_imports():
    from inputparser import Parser
    from simulation import Simulator
    return Parser, Simulator


def _goal_value(goal, st):
    """evaluate a goal monomial given as [(var, power), ...] on an exact state"""
    v = Fraction(1)
    for name, k in goal:
        v *= st[name] ** k
    return v


def _is_tail(goal):
    return isinstance(goal, dict)


def _goal_text(goal):
    return "*".join(f"{n}**{k}" if k != 1 else n for n, k in goal)


def _cli_goal(goal):
    """goal string as given on the command line"""
    if _is_tail(goal):
        v, op, a = goal["tail"]
        return f"P({v}>={a})<=?" if op == ">=" else f"P({v}>{a})>=?"
    return f"E({_goal_text(goal)})"


def _tail_value(goal, st):
    from fractions import Fraction
    v, op, a = goal["tail"]
    x = st[v]
    return Fraction(1 if (x >= Fraction(a) if op == ">=" else x > Fraction(a)) else 0)


def _close(p, r, scale):
    r = float(r)
    if math.isnan(p):
        return False
    return abs(p - r) <= 1e-9 * max(1.0, abs(r), scale)


def comparison_thresholds(prog):
    """{variable: constants it is compared with} for atoms of the shapes v op c, v + c' op c, v - c' op c"""
    from fractions import Fraction
    out = {}

    def atom(c):
        if c[0] == "cmp":
            for lhs, rhs, in ((c[1], c[3]), (c[3], c[1])):
                if rhs[0] != "num":
                    continue
                k = Fraction(rhs[1])
                if lhs[0] == "var":
                    out.setdefault(lhs[1], set()).add(float(k))
                elif lhs[0] in ("add", "sub") and lhs[1][0] == "var" and lhs[2][0] == "num":
                    d = Fraction(lhs[2][1])
                    out.setdefault(lhs[1][1], set()).add(float(k - d if lhs[0] == "add" else k + d))
        elif c[0] in ("and", "or"):
            atom(c[1])
            atom(c[2])
        elif c[0] == "not":
            atom(c[1])

    def walk(stmts):
        for s in stmts:
            if s[0] == "if":
                for c, br in s[1]:
                    atom(c)
                    walk(br)
                if s[2] is not None:
                    walk(s[2])

    atom(prog["guard"])
    walk(prog["body"])
    walk(prog["init"])
    return out


def run_case(case):
    """Execute one lock-step case."""
    return _run_case(case)


_hooked = [False]


def _install_assignment_observer():
    """Best effort: wrap Assignment.evaluate so that the controller sees the value an assignment stores right after it
    issued a random request.  If the class or method is not there (refactored code) the observer is simply absent and
    every request resolves directly."""
    if _hooked[0]:
        return True
    try:
        from program.assignment.assignment import Assignment
        orig = Assignment.evaluate
    except Exception:  # noqa
        return False

    def evaluate(self, state):
        res = orig(self, state)
        c = rngseam._controller
        if c is not None and hasattr(c, "assignment_done"):
            try:
                c.assignment_done(res[self.variable])
            except Exception:  # noqa
                c.flush()
        return res

    Assignment.evaluate = evaluate
    _hooked[0] = True
    return True


def _run_case(case):
    """Returns a dict with outcome in {ok, violation, inconclusive, polar_refused, both_refused, polar_error}."""
    Parser, Simulator = _polar_imports()
    import utils.identifiers as ident

    ident._count_unique_var = 0
    prog = case["prog"]
    iters = case["iterations"]
    samples = case["samples"]
    goals = case.get("goals", [])
    text = render_program(prog, case.get("style", "frac"), case.get("explicit_last", True))
    out = {"outcome": "ok", "text": text, "notes": []}

    rngseam.install(case.get("seed", 0))
    fp0 = rngseam.rng_fingerprint()
    rng = _random.Random(case.get("seed", 0))
    sched = Scheduler(rng, case.get("policy", "mixed"), case.get("script"))
    trace = []
    refinterp.INDEX_CHOICES[0] = bool(case.get("transform_categoricals"))
    ctl = LockstepController(refinterp.run(prog, iters, samples, trace), sched)
    ctl.observe_assignments = _install_assignment_observer()
    ctl.thresholds = comparison_thresholds(prog)
    rngseam.set_controller(ctl)
    try:
        import settings as _settings
        _saved_tc = _settings.transform_categoricals
        _settings.transform_categoricals = bool(case.get("transform_categoricals"))
        try:
            program = Parser().parse_string(text)
        except Exception as e:  # noqa
            _settings.transform_categoricals = _saved_tc
            out["outcome"] = "polar_refused"
            out["error"] = f"{type(e).__name__}: {e}"[:300]
            return out
        mode = case.get("mode", "simulate")
        printed = None
        try:
            if mode == "action":
                printed, result = _run_action(text, goals, iters, samples)
            else:
                with redirect_stderr(io.StringIO()):
                    result = Simulator(iters).simulate(program, [_goal_text(g) for g in goals if not _is_tail(g)], samples)
        except rngseam.NoController:
            raise
        except Exception as e:  # noqa
            ctl.drain()
            if ctl.ref_exc is not None and isinstance(ctl.ref_exc, refinterp.RefRefuses):
                out["outcome"] = "both_refused"
            elif ctl.ref_exc is not None:
                out["outcome"] = "inconclusive"
            else:
                out["outcome"] = "polar_error"
            out["error"] = f"{type(e).__name__}: {e}"[:300]
            return out
    finally:
        rngseam.set_controller(None)
        try:
            _settings.transform_categoricals = _saved_tc
        except NameError:
            pass

    missing = ctl.drain()
    if rngseam.rng_fingerprint() != fp0:
        # randomness was drawn past the scripted seam (an entry point the seam does not know): the run cannot be coupled
        out["outcome"] = "inconclusive"
        out["notes"].append("unscripted randomness: the state of the real generators changed during the run")
        out["unscripted"] = True
        return out
    out["draws"] = len(ctl.events)
    out["mirrored"] = ctl.mirrored
    out["index_draws"] = sum(1 for e in ctl.events if case.get("transform_categoricals") and (e.get("ref") or {}).get("kind") == "finite")

    out["script"] = list(sched.used)
    out["n_extreme"] = sched.n_extreme
    out["n_boundary"] = sched.n_boundary
    out["trace_sig"] = _digest(trace)
    out["probes"] = _probes(trace, ctl.events, prog)
    if ctl.ref_exc is not None:
        if isinstance(ctl.ref_exc, refinterp.RefRefuses):
            # the reference gives the program no meaning but Polar simulated something
            out["outcome"] = "inconclusive"
            out["notes"].append(f"reference refuses: {ctl.ref_exc}")
        else:
            out["outcome"] = "inconclusive"
            out["notes"].append(f"inconclusive: {ctl.ref_exc}")
        return out
    runs_ref = ctl.ref_result
    problems = []
    # -- oracle 2: state equality at every iteration boundary -----------------
    samples_p = result.samples
    if len(samples_p) != len(runs_ref):
        problems.append({"kind": "sample-count", "polar": len(samples_p), "ref": len(runs_ref)})
    scale = 1.0
    for run in runs_ref:
        for st in run:
            for v in st.values():
                try:
                    scale = max(scale, abs(float(v)))
                except OverflowError:
                    scale = math.inf
    if not math.isfinite(scale) or scale > 1e100:
        out["outcome"] = "inconclusive"
        out["notes"].append("magnitude overflow")
        return out
    for si, (run_p, run_r) in enumerate(zip(samples_p, runs_ref)):
        if len(run_p) != len(run_r):
            problems.append({"kind": "run-length", "sample": si, "polar": len(run_p), "ref": len(run_r)})
            continue
        for it, (sp, sr) in enumerate(zip(run_p, run_r)):
            spn = {str(k): v for k, v in sp.items()}
            for name, rv in sr.items():
                if name not in spn:
                    problems.append({"kind": "missing-variable", "sample": si, "iteration": it, "var": name})
                elif not _close(spn[name], rv, scale):
                    problems.append({"kind": "state", "sample": si, "iteration": it, "var": name,
                                     "polar": spn[name], "ref": float(rv)})
            for name in spn:
                if name not in sr and not name.startswith("_") and all(ch.isalnum() or ch == "_" for ch in name):
                    if isinstance(spn[name], float) and math.isnan(spn[name]) and any(not _is_tail(g) and len(g) == 1 and g[0][0] == name for g in goals):
                        continue      # the goal column of a variable that has no value yet (checked below as a goal)
                    problems.append({"kind": "extra-variable", "sample": si, "iteration": it, "var": name})
            # -- oracle 4a: goal columns
            for g in goals:
                if _is_tail(g):
                    continue
                gt = _goal_text(g)
                pv = None
                for k, v in sp.items():
                    if _same_monomial(str(k), g):
                        pv = v
                if pv is None:
                    problems.append({"kind": "goal-missing", "goal": gt, "sample": si, "iteration": it})
                elif any(name not in sr for name, _ in g):
                    # a variable of the goal has not been assigned yet in this state: no number to report
                    if not (isinstance(pv, float) and math.isnan(pv)):
                        problems.append({"kind": "goal-value", "goal": gt, "sample": si, "iteration": it, "polar": pv, "ref": "undefined"})
                elif not _close(pv, _goal_value(g, sr), scale ** sum(k for _, k in g)):
                    problems.append({"kind": "goal-value", "goal": gt, "sample": si, "iteration": it,
                                     "polar": pv, "ref": float(_goal_value(g, sr))})
            if len(problems) > 5:
                break
        if len(problems) > 5:
            break
    # -- oracle 4b: reported means
    if not problems and goals:
        means = {}
        try:
            means = {str(k): v for k, v in result.get_average_goals().items()}
        except Exception as e:  # noqa
            problems.append({"kind": "mean-error", "error": repr(e)[:200]})
        for g in goals:
            if _is_tail(g):
                continue
            ref_mean = sum(float(_goal_value(g, run[-1])) for run in runs_ref) / len(runs_ref)
            pm = None
            for k, v in means.items():
                if _same_monomial(k, g):
                    pm = v
            if pm is None or not _close(pm, ref_mean, scale ** sum(k for _, k in g)):
                problems.append({"kind": "mean", "goal": _goal_text(g), "polar": pm, "ref": ref_mean})
        if printed is not None:
            want = [sum(float(_tail_value(g, run[-1])) for run in runs_ref) / len(runs_ref) for g in goals if _is_tail(g)]
            got = printed.get("__tails__", [])
            if len(want) != len(got) or any(abs(a - b) > 1e-9 for a, b in zip(want, got)):
                problems.append({"kind": "printed-tail-probability", "polar": got, "ref": want})
            for g in goals:
                if _is_tail(g):
                    continue
                ref_mean = sum(float(_goal_value(g, run[-1])) for run in runs_ref) / len(runs_ref)
                pm = printed.get(_canon_monomial_from_goal(g))
                if pm is None or not _close(pm, ref_mean, scale ** sum(k for _, k in g)):
                    problems.append({"kind": "printed-mean", "goal": _goal_text(g), "polar": pm, "ref": ref_mean})
    if ctl.extra_draws and not problems:
        out["notes"].append(f"{ctl.extra_draws} extra draws with no effect on states")
    if missing and not problems:
        out["notes"].append(f"{missing} reference draws never requested, no effect on states")
    if ctl.law_mismatch and not problems:
        out["notes"].append("seam law differs from reference law but values agree (post-processing)")
    if problems:
        out["outcome"] = "violation"
        out["problems"] = problems[:6]
        out["first_law_mismatch"] = ctl.first_mismatch
        out["extra_draws"] = ctl.extra_draws
        out["missing_draws"] = missing
    out["digest"] = _digest({"events": ctl.events, "final": [[{k: str(v) for k, v in st.items()} for st in run] for run in runs_ref]})
    out["path_sig"] = _digest([round(u, 12) for u in sched.used])
    return out


def _canon_monomial(s):
    """'x**2*y' / 'y*x**2' -> sorted tuple of (var, power)"""
    s = s.replace(" ", "")
    parts = {}
    for f in s.split("*"):
        pass
    # split on single '*' not part of '**'
    toks = []
    cur = ""
    i = 0
    while i < len(s):
        if s[i] == "*" and i + 1 < len(s) and s[i + 1] == "*":
            cur += "**"
            i += 2
        elif s[i] == "*":
            toks.append(cur)
            cur = ""
            i += 1
        else:
            cur += s[i]
            i += 1
    toks.append(cur)
    for t in toks:
        if "**" in t:
            n, k = t.split("**")
            parts[n] = parts.get(n, 0) + int(float(k))
        elif t:
            parts[t] = parts.get(t, 0) + 1
    return tuple(sorted(parts.items()))


def _canon_monomial_from_goal(g):
    parts = {}
    for n, k in g:
        parts[n] = parts.get(n, 0) + k
    return tuple(sorted(parts.items()))


def _same_monomial(text, g):
    try:
        return _canon_monomial(text) == _canon_monomial_from_goal(g)
    except Exception:  # noqa
        return False


SHARED_ACTION = None     # one Action object for all files of a sequence, as polar.main() uses it


def make_shared_action(goals, iters, samples):
    """the Action the CLI would build for `polar.py f1 f2 ... --simulate --goals ...` (ActionFactory, complete Namespace)"""
    global SHARED_ACTION
    from cli.actions import ActionFactory
    from .sessions import full_namespace
    ns = full_namespace(simulate=True, goals=[_cli_goal(g) for g in goals], simulation_iter=iters, number_samples=samples)
    SHARED_ACTION = ActionFactory.create_action(ns)


def _run_action(text, goals, iters, samples):
    """End to end through cli.actions.SimulationAction: returns (printed means, SimulationResult)."""
    from argparse import Namespace
    from cli.actions.simulation_action import SimulationAction
    import simulation.simulator as simmod

    captured = {}
    orig = simmod.Simulator.simulate

    def spy(self, program, gs, n):
        r = orig(self, program, gs, n)
        captured["result"] = r
        return r

    d = tempfile.mkdtemp(prefix="c12-", dir=os.environ.get("VERIF_SCRATCH", None))
    path = os.path.join(d, "prog.prob")
    with open(path, "w") as f:
        f.write(text)
    args = Namespace(goals=[_cli_goal(g) for g in goals], simulation_iter=iters, number_samples=samples)
    buf = io.StringIO()
    simmod.Simulator.simulate = spy
    try:
        with redirect_stdout(buf), redirect_stderr(io.StringIO()):
            (SHARED_ACTION if SHARED_ACTION is not None else SimulationAction(args))(path)
    finally:
        simmod.Simulator.simulate = orig
        try:
            os.remove(path)
            os.rmdir(d)
        except OSError:
            pass
    printed = {}
    tails = []
    seen_result = False
    for line in buf.getvalue().splitlines():
        if "Simulation Result" in line:
            seen_result = True
            continue
        if seen_result and line.startswith("P(") and " = " in line:
            try:
                tails.append(float(line.rsplit(" = ", 1)[1]))
            except ValueError:
                tails.append(float("nan"))
            continue
        if seen_result and " = " in line:
            lhs, rhs = line.split(" = ", 1)
            lhs = lhs.strip()
            if lhs.startswith("E(") and lhs.endswith(")"):
                lhs = lhs[2:-1]
            try:
                printed[_canon_monomial(lhs)] = float(rhs)
            except ValueError:
                pass
    printed["__tails__"] = tails
    return printed, captured.get("result")


def _probes(trace, events, prog):
    p = {}
    its = [t for t in trace if t[0] == "iter"]
    # guard became false before the last iteration of some sample
    p["guard_false_iteration"] = sum(1 for t in its if not t[1])
    p["iterations"] = len(its)
    p["elif_taken"] = sum(1 for t in trace if t[0] == "branch" and t[1] >= 1)
    p["else_taken"] = sum(1 for t in trace if t[0] == "else")
    p["if_fallthrough"] = 0
    p["simul_executed"] = sum(1 for t in trace if t[0] == "simul")
    fams = {}
    last_of_3 = 0
    extreme = 0
    for e in events:
        r = e.get("ref")
        if r is None:
            continue
        if r["kind"] == "cont":
            fams[r["name"]] = fams.get(r["name"], 0) + 1
        else:
            fams[f"finite{len(r['points'])}"] = fams.get(f"finite{len(r['points'])}", 0) + 1
            if len(r["points"]) >= 3:
                cum = 1.0 - r["points"][-1][1]
                if e["u"] > cum:
                    last_of_3 += 1
        if e["u"] <= 1e-5 or e["u"] >= 1 - 1e-5:
            extreme += 1
    p["families"] = fams
    p["last_outcome_of_3way"] = last_of_3
    p["extreme_quantile"] = extreme
    return p


# ------------------------------------------------------------------ sampler cases
SAMPLER_REF = {
    # family -> function(params as Fractions) -> reference law; via refinterp.draw_law
}


def run_sampler_case(case):
    """Oracle 3: one family + parameter vector.  Compares the *quantile function* of the value
    returned by Distribution.sample (on a grid incl. the extremes) with the reference law, checks
    every value against get_support(), is_discrete() against the law kind, and the raw moments
    the analysis uses (get_moment) against the moments of that same law."""
    from program.distribution import distribution_factory
    from symengine.lib.symengine_wrapper import Symbol, sympify
    from .past import render_expr
    from .refinterp import eval_expr, draw_law

    fam = case["family"]
    pexprs = case["params"]
    state = {k: Fraction(v) for k, v in case.get("state", {}).items()}
    out = {"outcome": "ok", "family": fam, "notes": []}
    try:
        ps = [eval_expr(e, state) for e in pexprs]
        law_r, exact = draw_law(fam, ps)
    except (refinterp.Inconclusive, refinterp.RefRefuses) as e:
        out["outcome"] = "inconclusive"
        out["notes"].append(str(e))
        return out
    rngseam.install(case.get("seed", 0))
    try:
        dist = distribution_factory(fam, [render_expr(e) for e in pexprs])
    except Exception as e:  # noqa
        out["outcome"] = "polar_refused"
        out["error"] = f"{type(e).__name__}: {e}"[:300]
        return out
    pstate = {Symbol(k): float(v) for k, v in state.items()}
    problems = []
    us = list(case.get("us") or GRID)
    if law_r.kind == "finite":
        us = [law_r.mid_quantile_of(i) for i in range(len(law_r.points))] + [1e-9, 1 - 1e-9]

    class One:
        def __init__(self, u):
            self.u = u
            self.laws = []

        def request(self, law, entry):
            self.laws.append(law)
            return self.u

    try:
        support = dist.get_support()
        discrete = dist.is_discrete()
    except Exception as e:  # noqa
        out["outcome"] = "polar_error"
        out["error"] = repr(e)[:300]
        return out
    if bool(discrete) != (law_r.kind == "finite"):
        problems.append({"kind": "is_discrete", "polar": bool(discrete), "ref_kind": law_r.kind})
    sub = {Symbol(k): sympify(str(v)) for k, v in state.items()}
    vals = []
    seam_same = True
    fp0 = rngseam.rng_fingerprint()
    unscripted = False
    qproblems = []
    mirror_ok = law_r.kind == "cont"
    for u in us:
        c = One(u)
        rngseam.set_controller(c)
        try:
            v = float(dist.sample(dict(pstate)))
        except Exception as e:  # noqa
            rngseam.set_controller(None)
            out["outcome"] = "polar_error"
            out["error"] = f"{type(e).__name__}: {e}"[:300]
            return out
        finally:
            rngseam.set_controller(None)
        for l in c.laws:
            if not law_r.same_as(l):
                seam_same = False
        rv = law_r.quantile(u) if not law_r.is_point_mass() else law_r.points[0][0]
        vals.append((u, v, rv))
        if rngseam.rng_fingerprint() != fp0:
            # the sampler drew past the scripted seam: its value cannot be coupled to a quantile, only the support check applies
            unscripted = True
            fp0 = rngseam.rng_fingerprint()
        elif not _close(v, rv, 1.0):
            qproblems.append({"kind": "quantile", "u": u, "polar": v, "ref": rv})
        if law_r.kind == "cont" and not _close(v, law_r.quantile_upper(u), 1.0):
            mirror_ok = False
        if not _in_support(v, support, sub):
            problems.append({"kind": "support", "u": u, "value": v, "support": str(support)})
    if qproblems and mirror_ok:
        out["notes"].append("quantile function is the mirrored one (decreasing post-processing of the draw): same law")
    else:
        problems += qproblems
    # moments the analysis uses, against the same law
    kmax = case.get("kmax", 3)
    if not state:
        for k in range(1, kmax + 1):
            try:
                m = dist.get_moment(k)
                mp = float(m)
            except Exception as e:  # noqa
                out["notes"].append(f"get_moment({k}) raised {type(e).__name__}")
                continue
            mr = law_r.moment(k)
            if not (abs(mp - mr) <= 1e-7 * max(1.0, abs(mr))):
                problems.append({"kind": "moment", "k": k, "analysis": mp, "sampler_law": mr})
    out["seam_same"] = seam_same
    if unscripted:
        out["notes"].append("unscripted randomness in the sampler: quantile comparison skipped, support check only")
    out["values"] = [[u, v] for u, v, _ in vals[:4]]
    out["digest"] = _digest([[u, v] for u, v, _ in vals])
    if problems:
        out["outcome"] = "violation"
        out["problems"] = problems[:6]
    return out


def _num(x, sub):
    x = x.subs(sub) if hasattr(x, "subs") else x
    t = str(x)
    if t in ("oo", "+oo", "inf"):
        return math.inf
    if t in ("-oo", "-inf"):
        return -math.inf
    return float(x)


def _in_support(v, support, sub):
    for s in support:
        try:
            if isinstance(s, tuple):
                lo = _num(s[0], sub)
                hi = _num(s[1], sub)
                if lo - 1e-9 * max(1, abs(lo) if math.isfinite(lo) else 1) <= v <= hi + 1e-9 * max(1, abs(hi) if math.isfinite(hi) else 1):
                    return True
            else:
                x = _num(s, sub)
                if abs(x - v) <= 1e-9 * max(1.0, abs(x)):
                    return True
        except Exception:  # noqa
            continue
    return False
