"""Seams over Polar's process-global state (used by the session simulator, C20 / C17).

Everything here reaches into the running Polar modules from outside; /repo needs no hook.
"""
import functools
import gc
import importlib
import pkgutil
import random as _random
import sys

OPTION_DEFAULTS = {
    "transform_categoricals": False,
    "cond2arithm": False,
    "disable_type_inference": False,
    "type_fp_iterations": 100,
    "numeric_roots": False,
    "numeric_croots": False,
    "numeric_eps": 1e-10,
    "trivial_guard": False,
    "exact_func_moments": False,
}

POLAR_PACKAGES = ["program", "recurrences", "utils", "expansions", "invariants", "inputparser", "cli", "simulation",
                  "type_inference", "unsolvable_analysis", "sensitivity_analysis", "bayesnet"]


def apply_options(vec):
    import settings
    full = dict(OPTION_DEFAULTS)
    full.update(vec or {})
    for k, v in full.items():
        setattr(settings, k, v)
    return full


def read_options():
    import settings
    return {k: getattr(settings, k) for k in OPTION_DEFAULTS}


def counter_get():
    import utils.identifiers as ident
    return ident._count_unique_var


def counter_set(v):
    import utils.identifiers as ident
    ident._count_unique_var = int(v)


_caches = None   # list of [references [(owner, attr)...], qualified name]


def discover_caches():
    """every functools.lru_cache in Polar's packages, with every module/class attribute referring to it"""
    global _caches
    if _caches is not None:
        return _caches
    byid = {}
    for pk in POLAR_PACKAGES:
        try:
            pkg = importlib.import_module(pk)
        except Exception:  # noqa
            continue
        mods = [pkg]
        if hasattr(pkg, "__path__"):
            for m in pkgutil.walk_packages(pkg.__path__, pk + "."):
                try:
                    mods.append(importlib.import_module(m.name))
                except Exception:  # noqa
                    pass
        for mod in mods:
            for name, obj in list(vars(mod).items()):
                if hasattr(obj, "cache_clear") and hasattr(obj, "__wrapped__"):
                    q = f"{getattr(obj, '__module__', mod.__name__)}.{getattr(obj, '__qualname__', name)}"
                    byid.setdefault(id(obj), [[], q])[0].append((mod, name))
                elif isinstance(obj, type) and getattr(obj, "__module__", "").split(".")[0] in POLAR_PACKAGES:
                    for an, av in list(vars(obj).items()):
                        if hasattr(av, "cache_clear") and hasattr(av, "__wrapped__"):
                            q = f"{obj.__module__}.{obj.__name__}.{an}"
                            refs = byid.setdefault(id(av), [[], q])[0]
                            if (obj, an) not in refs:
                                refs.append((obj, an))
    _caches = sorted(byid.values(), key=lambda t: t[1])
    return _caches


def _live(entry):
    owner, attr = entry[0][0]
    return getattr(owner, attr)


def cache_names():
    return [q for _, q in discover_caches()]


def cache_flush(names=None):
    n = 0
    for entry in discover_caches():
        if names is None or entry[1] in names:
            _live(entry).cache_clear()
            n += 1
    return n


def cache_occupancy():
    out = {}
    for entry in discover_caches():
        try:
            out[entry[1]] = _live(entry).cache_info().currsize
        except Exception:  # noqa
            out[entry[1]] = -1
    return out


def cache_hits():
    return sum(_live(e).cache_info().hits for e in discover_caches())


def cache_shrink(maxsize):
    """re-wrap every cache with a tiny maxsize for the whole world ("fast path skipped")"""
    n = 0
    for entry in discover_caches():
        fn = _live(entry).__wrapped__
        wrapped = functools.lru_cache(maxsize=maxsize)(fn)
        for owner, attr in entry[0]:
            setattr(owner, attr, wrapped)
        n += 1
    return n


def gc_collect():
    return gc.collect()


def rng_churn(k):
    import numpy as np
    for _ in range(k):
        _random.random()
    np.random.random(k)


def shared_truecond_clean():
    """the single TrueCond instance used as default argument of Assignment.__init__ must stay pristine"""
    from program.assignment.assignment import Assignment
    d = Assignment.__init__.__defaults__
    if not d:
        return True
    return not getattr(d[0], "__dict__", {})


def class_flag():
    from program.assignment import FunctionalAssignment
    return bool(FunctionalAssignment.exact_func_moments)


DEFAULT_INT_DIGITS = 4300


def knobs():
    """interpreter-global settings an analysis has no business changing for the rest of the process"""
    import sys
    import os
    return {"recursionlimit": sys.getrecursionlimit(),
            "int_max_str_digits": sys.get_int_max_str_digits() if hasattr(sys, "get_int_max_str_digits") else None,
            "cwd": os.getcwd()}


def knobs_default():
    """a world starts like a fresh interpreter: the harness processes themselves run without the integer-text limit"""
    import sys
    if hasattr(sys, "set_int_max_str_digits"):
        sys.set_int_max_str_digits(DEFAULT_INT_DIGITS)

