"""Reference interpreter for the loop language (never touches Polar's objects).

Semantics, as stated by the properties (C01/C12): statements in order; first matching
if/elif/else branch; probabilistic choice; independent draws with the language-level
parameterisation; simultaneous assignment reads old values (right-hand sides evaluated left to
right); state frozen once the loop guard is false.

Arithmetic is exact (fractions.Fraction); a continuous draw enters as the exact rational value of
the float quantile.  The interpreter is a generator: it *yields* a Law for every random request
that is not a point mass and *receives* the resolution u; it returns the list of runs, each a
list of `iterations+1` states.
"""
import math
from fractions import Fraction

from .laws import FiniteLaw, ContLaw


class Inconclusive(Exception):
    """the run cannot be judged (branch decision within float noise, inadmissible parameter, overflow)"""


class RefRefuses(Exception):
    """the program has no meaning under the reference semantics (e.g. reads an unset variable)"""


MAX_BITS = 200000


def eval_expr(e, st):
    t = e[0]
    if t == "num":
        return Fraction(e[1])
    if t == "var":
        if e[1] not in st:
            raise RefRefuses(f"variable {e[1]} read before assignment")
        return st[e[1]]
    if t == "neg":
        return -eval_expr(e[1], st)
    if t == "pow":
        b = eval_expr(e[1], st)
        r = b ** int(e[2])
        return r
    a = eval_expr(e[1], st)
    b = eval_expr(e[2], st)
    if t == "add":
        return a + b
    if t == "sub":
        return a - b
    if t == "div":
        if b == 0:
            raise Inconclusive("division by zero")
        return a / b
    if t == "mul":
        r = a * b
        if r.numerator.bit_length() > MAX_BITS:
            raise Inconclusive("value too large")
        return r
    raise ValueError(t)


def _cmp(a, op, b):
    if op == "==":
        return a == b
    if op == "<=":
        return a <= b
    if op == ">=":
        return a >= b
    if op == "<":
        return a < b
    if op == ">":
        return a > b
    raise RefRefuses(f"comparison operator {op} has no meaning")


def eval_cond(c, st):
    t = c[0]
    if t == "true":
        return True
    if t == "false":
        return False
    if t == "cmp":
        a = eval_expr(c[1], st)
        b = eval_expr(c[3], st)
        d = abs(a - b)
        if d != 0 and d < Fraction(1, 10**11) * max(1, abs(a), abs(b)):
            # Polar evaluates in floats; a decision this close cannot be attributed
            raise Inconclusive("branch decision within float noise")
        return _cmp(a, c[2], b)
    if t == "not":
        return not eval_cond(c[1], st)
    if t == "and":
        # no short-circuit dependence: both sides are pure
        l = eval_cond(c[1], st)
        r = eval_cond(c[2], st)
        return l and r
    if t == "or":
        l = eval_cond(c[1], st)
        r = eval_cond(c[2], st)
        return l or r
    raise ValueError(t)


def _f(x):
    v = float(x)
    if not math.isfinite(v):
        raise Inconclusive("float overflow")
    return v


def draw_law(family, ps):
    """Law of `family(ps...)` under the *language-level* parameterisation.
    Returns (law, exact_points) — exact_points is the value-sorted list of exact values for
    finite laws, else None."""
    n = len(ps)
    if family == "Bernoulli":
        (p,) = ps
        if not (0 <= p <= 1):
            raise Inconclusive("inadmissible Bernoulli parameter")
        pts = [(Fraction(0), 1 - p), (Fraction(1), p)]
        return _finite(pts)
    if family == "Categorical":
        if any(p < 0 for p in ps) or sum(ps) != 1:
            raise Inconclusive("inadmissible Categorical parameters")
        return _finite([(Fraction(i), p) for i, p in enumerate(ps)])
    if family == "DiscreteUniform":
        a, b = ps
        if a.denominator != 1 or b.denominator != 1 or b < a:
            raise Inconclusive("inadmissible DiscreteUniform parameters")
        k = int(b) - int(a) + 1
        return _finite([(Fraction(v), Fraction(1, k)) for v in range(int(a), int(b) + 1)])
    if family == "Normal":
        mu, s2 = ps
        if s2 <= 0:
            raise Inconclusive("inadmissible Normal variance")
        return ContLaw("norm", (), {"loc": _f(mu), "scale": math.sqrt(_f(s2))}), None
    if family == "Uniform":
        a, b = ps
        if b <= a:
            raise Inconclusive("inadmissible Uniform bounds")
        return ContLaw("uniform", (), {"loc": _f(a), "scale": _f(b) - _f(a)}), None
    if family == "Laplace":
        mu, b = ps
        if b <= 0:
            raise Inconclusive("inadmissible Laplace scale")
        return ContLaw("laplace", (), {"loc": _f(mu), "scale": _f(b)}), None
    if family == "DistExp":
        (lam,) = ps
        if lam <= 0:
            raise Inconclusive("inadmissible rate")
        return ContLaw("expon", (), {"scale": 1.0 / _f(lam)}), None
    if family == "TruncNormal":
        mu, s2, a, b = ps
        if s2 <= 0 or b <= a:
            raise Inconclusive("inadmissible TruncNormal parameters")
        s = math.sqrt(_f(s2))
        return ContLaw("truncnorm", ((_f(a) - _f(mu)) / s, (_f(b) - _f(mu)) / s), {"loc": _f(mu), "scale": s}), None
    if family == "Beta":
        a, b = ps[0], ps[1]
        scale = ps[2] if n == 3 else Fraction(1)
        if a <= 0 or b <= 0 or scale <= 0:
            raise Inconclusive("inadmissible Beta parameters")
        return ContLaw("beta", (_f(a), _f(b)), {"scale": _f(scale)}), None
    if family == "Gamma":
        k, theta = ps
        if k <= 0 or theta <= 0:
            raise Inconclusive("inadmissible Gamma parameters")
        return ContLaw("gamma", (_f(k),), {"scale": _f(theta)}), None
    raise RefRefuses(f"unknown distribution {family}")


def _finite(pairs):
    acc = {}
    for v, p in pairs:
        if p > 0:
            acc[v] = acc.get(v, 0) + p
    exact = sorted(acc.items())
    law = FiniteLaw([(float(v), float(p)) for v, p in exact])
    if len(law.points) != len(exact):
        raise Inconclusive("finite law with values closer than float noise")
    return law, [v for v, _ in exact]


INDEX_CHOICES = [False]


def _resolve(law, exact):
    """generator: yields the law unless it is a point mass; returns the exact value"""
    if law.is_point_mass():
        return exact[0] if exact is not None else Fraction(law.points[0][0])
    u = yield law
    if exact is not None:
        return exact[law.outcome_index(abs(u))]
    # a negative resolution -u asks for the upper u-quantile (mirrored coupling, see c12.LockstepController)
    v = law.quantile(u) if u >= 0 else law.quantile_upper(-u)
    if not math.isfinite(v):
        raise Inconclusive("infinite quantile")
    return Fraction(v)


def eval_rhs(r, st):
    """generator evaluating one right-hand side in state st; returns Fraction"""
    t = r[0]
    if t == "choice":
        items = r[1]
        probs = []
        for e, p in items:
            if isinstance(p, list):
                probs.append(eval_expr(p, st))      # a probability that is a program expression
            else:
                probs.append(None if p is None else Fraction(p))
        if probs[-1] is None:
            probs[-1] = 1 - sum(p for p in probs[:-1])
        if any(p < 0 for p in probs) or sum(probs) != 1:
            if any(isinstance(p, list) for _, p in items):
                raise Inconclusive("state-dependent probabilities left [0,1]")
            raise RefRefuses("probabilities of a choice are negative or do not add up to 1")
        vals = [eval_expr(e, st) for e, _ in items]
        if INDEX_CHOICES[0]:
            # the program was parsed with the option that expands a choice into a drawn *index* and branches: the request is
            # the law of the index (alternatives of probability 0 never occur), whatever values the alternatives have
            pos = [(i, p) for i, p in enumerate(probs) if p > 0]
            if len(pos) == 1:
                return vals[pos[0][0]]
            ilaw = FiniteLaw([(float(i), float(p)) for i, p in pos])
            u = yield ilaw
            return vals[pos[ilaw.outcome_index(u)][0]]
        law, exact = _finite(list(zip(vals, probs)))
        return (yield from _resolve(law, exact))
    if t == "draw":
        ps = [eval_expr(a, st) for a in r[2]]
        law, exact = draw_law(r[1], ps)
        return (yield from _resolve(law, exact))
    if t == "func":
        a = _f(eval_expr(r[2], st))
        try:
            v = {"Sin": math.sin, "Cos": math.cos, "Exp": math.exp}[r[1]](a)
        except OverflowError:
            raise Inconclusive("exp overflow")
        return Fraction(v)
    return eval_expr(r, st)


CTX = {"sample": 0, "iteration": -1, "target": None, "listing": None}   # where the interpreter is (read by the lock-step controller)


def exec_stmts(stmts, st, trace=None):
    for s in stmts:
        t = s[0]
        if t == "assign":
            CTX["target"] = s[1]
            st[s[1]] = yield from eval_rhs(s[2], st)
            if trace is not None:
                trace.append(("assign", s[1]))
        elif t == "simul":
            vals = []
            for tv, r in zip(s[1], s[2]):
                CTX["target"] = tv
                vals.append((yield from eval_rhs(r, st)))
            for v, x in zip(s[1], vals):
                st[v] = x
            if trace is not None:
                trace.append(("simul", tuple(s[1])))
        elif t == "if":
            taken = False
            for i, (c, br) in enumerate(s[1]):
                if eval_cond(c, st):
                    if trace is not None:
                        trace.append(("branch", i, len(s[1]), s[2] is not None))
                    yield from exec_stmts(br, st, trace)
                    taken = True
                    break
            if not taken and s[2] is not None:
                if trace is not None:
                    trace.append(("else", len(s[1])))
                yield from exec_stmts(s[2], st, trace)
        else:
            raise ValueError(t)


def run(prog, iterations, samples, trace=None):
    """generator; returns runs[sample][iteration] = state (dict var -> Fraction)"""
    runs = []
    for si in range(samples):
        st = {}
        CTX["sample"], CTX["iteration"] = si, -1
        yield from exec_stmts(prog["init"], st, trace)
        states = [dict(st)]
        for it in range(iterations):
            CTX["iteration"] = it
            if eval_cond(prog["guard"], st):
                st = dict(st)
                yield from exec_stmts(prog["body"], st, trace)
                if trace is not None:
                    trace.append(("iter", True))
            else:
                if trace is not None:
                    trace.append(("iter", False))
            states.append(dict(st))
        runs.append(states)
    return runs
