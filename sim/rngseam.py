"""The scripted RNG seam.

Replaces the entry points through which Polar (or any library it calls) obtains randomness:
the module-level functions of `random` and the `rvs` methods of scipy.stats distributions.
Polar's modules look these up at call time (`import random; random.choices(...)`,
`from scipy.stats import norm; norm.rvs(...)`), so patching the module attribute / the class
attribute is enough and /repo needs no hook.

Each fake turns the call into a Law, hands it to the installed controller, which returns a
resolution u in (0,1); the fake returns the u-quantile of the law in the type the real routine
would have returned.  Point masses are not choice points (Polar routes `x = 3` through
`random.choices([3.0], [1.0])`).

The real generators are additionally seeded by `install(seed)` so that a draw that bypasses
every patched entry point still replays.
"""
import random as _random

import numpy as np
import scipy.stats._distn_infrastructure as _di

from .laws import FiniteLaw, ContLaw, law_from_scipy

_controller = None
_installed = False
_orig = {}
stats = {"requests": 0, "point_mass": 0, "by_entry": {}}


class NoController(RuntimeError):
    pass


def set_controller(c):
    global _controller
    _controller = c


def _ask(law, entry):
    stats["requests"] += 1
    stats["by_entry"][entry] = stats["by_entry"].get(entry, 0) + 1
    if law.is_point_mass():
        stats["point_mass"] += 1
        return None
    if _controller is None:
        raise NoController(f"random request through {entry} with no controller installed")
    u = _controller.request(law, entry)
    if not (0.0 < u < 1.0):
        raise RuntimeError(f"controller returned resolution {u!r} outside (0,1)")
    return u


def _finite_from(population, weights=None, cum_weights=None):
    population = list(population)
    n = len(population)
    if cum_weights is not None:
        cw = list(cum_weights)
        weights = [cw[0]] + [cw[i] - cw[i - 1] for i in range(1, n)]
    if weights is None:
        weights = [1.0] * n
    weights = [float(w) for w in weights]
    law = FiniteLaw(zip([float(x) for x in population], weights))
    return law, population


def _pick(population, law, u):
    """the element of population whose float value is the u-quantile of law"""
    if u is None:
        v = law.points[0][0]
    else:
        v = law.quantile(u)
    best = None
    for x in population:
        fx = float(x)
        if fx == v or abs(fx - v) <= 1e-12 * max(1.0, abs(v)):
            best = x
            break
    if best is None:
        raise RuntimeError("quantile not in population")
    return best


def f_choices(population, weights=None, *, cum_weights=None, k=1):
    try:
        law, pop = _finite_from(population, weights, cum_weights)
    except (TypeError, ValueError):
        # non-numeric population: resolve on indices
        pop = list(population)
        n = len(pop)
        w = weights
        if cum_weights is not None:
            cw = list(cum_weights)
            w = [cw[0]] + [cw[i] - cw[i - 1] for i in range(1, n)]
        law = FiniteLaw(zip(range(n), w if w is not None else [1.0] * n))
        out = []
        for _ in range(k):
            u = _ask(law, "random.choices")
            idx = int(law.points[0][0] if u is None else law.quantile(u))
            out.append(pop[idx])
        return out
    out = []
    for _ in range(k):
        u = _ask(law, "random.choices")
        out.append(_pick(pop, law, u))
    return out


def f_choice(seq):
    seq = list(seq)
    if not seq:
        raise IndexError("Cannot choose from an empty sequence")
    try:
        law, pop = _finite_from(seq)
        u = _ask(law, "random.choice")
        return _pick(pop, law, u)
    except (TypeError, ValueError):
        law = FiniteLaw(zip(range(len(seq)), [1.0] * len(seq)))
        u = _ask(law, "random.choice")
        return seq[int(law.points[0][0] if u is None else law.quantile(u))]


def f_randint(a, b):
    law = FiniteLaw((v, 1.0) for v in range(int(a), int(b) + 1))
    u = _ask(law, "random.randint")
    return int(law.points[0][0] if u is None else law.quantile(u))


def f_randrange(start, stop=None, step=1):
    if stop is None:
        start, stop = 0, start
    law = FiniteLaw((v, 1.0) for v in range(int(start), int(stop), int(step)))
    u = _ask(law, "random.randrange")
    return int(law.points[0][0] if u is None else law.quantile(u))


def _cont(entry, name, *args, **kwds):
    law = ContLaw(name, args, kwds)
    u = _ask(law, entry)
    return law.quantile(u)


def f_random():
    return _cont("random.random", "uniform")


def f_uniform(a, b):
    return _cont("random.uniform", "uniform", loc=a, scale=b - a)


def f_gauss(mu=0.0, sigma=1.0):
    return _cont("random.gauss", "norm", loc=mu, scale=sigma)


def f_normalvariate(mu=0.0, sigma=1.0):
    return _cont("random.normalvariate", "norm", loc=mu, scale=sigma)


def f_expovariate(lambd=1.0):
    return _cont("random.expovariate", "expon", scale=1.0 / lambd)


def f_betavariate(alpha, beta):
    return _cont("random.betavariate", "beta", alpha, beta)


def f_gammavariate(alpha, beta):
    return _cont("random.gammavariate", "gamma", alpha, scale=beta)


def _rvs(self, *args, **kwds):
    size = kwds.get("size", None)
    law = law_from_scipy(self, args, kwds)
    discrete = isinstance(self, _di.rv_discrete)
    entry = f"scipy.stats.{self.name}.rvs"

    def one():
        u = _ask(law, entry)
        if law.kind == "finite":
            v = law.points[0][0] if u is None else law.quantile(u)
            return int(v) if discrete else v
        return law.quantile(u)

    if size is None or size == () or size == 1 and not isinstance(size, tuple):
        v = one()
        if size is None or size == ():
            return int(v) if discrete else np.float64(v)
        return np.array([v])
    n = int(np.prod(size))
    arr = np.array([one() for _ in range(n)])
    return arr.reshape(size)


_RANDOM_FAKES = {
    "choices": f_choices,
    "choice": f_choice,
    "randint": f_randint,
    "randrange": f_randrange,
    "random": f_random,
    "uniform": f_uniform,
    "gauss": f_gauss,
    "normalvariate": f_normalvariate,
    "expovariate": f_expovariate,
    "betavariate": f_betavariate,
    "gammavariate": f_gammavariate,
}


# ---------------------------------------------------------------- numpy.random (legacy module functions and Generators)
def _np_many(one, size):
    if size is None or size == ():
        return one()
    n = int(np.prod(size))
    return np.array([one() for _ in range(n)]).reshape(size)


def _np_fakes():
    def random_sample(size=None):
        return _np_many(lambda: _cont("numpy.random.random", "uniform"), size)

    def uniform(low=0.0, high=1.0, size=None):
        return _np_many(lambda: _cont("numpy.random.uniform", "uniform", loc=low, scale=high - low), size)

    def normal(loc=0.0, scale=1.0, size=None):
        return _np_many(lambda: _cont("numpy.random.normal", "norm", loc=loc, scale=scale), size)

    def standard_normal(size=None):
        return _np_many(lambda: _cont("numpy.random.standard_normal", "norm"), size)

    def exponential(scale=1.0, size=None):
        return _np_many(lambda: _cont("numpy.random.exponential", "expon", scale=scale), size)

    def laplace(loc=0.0, scale=1.0, size=None):
        return _np_many(lambda: _cont("numpy.random.laplace", "laplace", loc=loc, scale=scale), size)

    def beta(a, b, size=None):
        return _np_many(lambda: _cont("numpy.random.beta", "beta", a, b), size)

    def gamma(shape, scale=1.0, size=None):
        return _np_many(lambda: _cont("numpy.random.gamma", "gamma", shape, scale=scale), size)

    def binomial(n, p, size=None):
        def one():
            law = law_from_scipy(__import__("scipy.stats", fromlist=["binom"]).binom, (n, p), {})
            u = _ask(law, "numpy.random.binomial")
            return int(law.points[0][0] if u is None else law.quantile(u))
        return _np_many(one, size)

    def randint(low, high=None, size=None, dtype=int):
        if high is None:
            low, high = 0, low
        return _np_many(lambda: f_randrange(low, high), size)

    def choice(a, size=None, replace=True, p=None):
        pop = list(range(a)) if isinstance(a, (int, np.integer)) else list(a)
        return _np_many(lambda: f_choices(pop, weights=None if p is None else list(p), k=1)[0], size)

    return {"random": random_sample, "random_sample": random_sample, "rand": lambda *shape: random_sample(shape or None),
            "uniform": uniform, "normal": normal, "standard_normal": standard_normal, "randn": lambda *shape: standard_normal(shape or None),
            "exponential": exponential, "laplace": laplace, "beta": beta, "gamma": gamma, "binomial": binomial,
            "randint": randint, "choice": choice}


class FakeGenerator:
    """stands in for numpy.random.Generator / RandomState objects created by the code under test"""

    def __init__(self, *a, **k):
        for name, fn in _np_fakes().items():
            setattr(self, name, fn)
        self.integers = lambda low, high=None, size=None, **kw: _np_fakes()["randint"](low, high, size)


def rng_fingerprint():
    """hash of the state of the *real* generators: if it changes during a run, randomness was drawn past the seam"""
    import hashlib
    st = np.random.get_state()
    h = hashlib.sha256(repr(_random.getstate()).encode() + st[1].tobytes() + str(st[2:]).encode())
    return h.hexdigest()[:16]


def install(seed=0):
    """Install the seam (idempotent) and seed the real generators."""
    global _installed
    if not _installed:
        for name, fake in _np_fakes().items():
            _orig["np." + name] = getattr(np.random, name)
            setattr(np.random, name, fake)
        _orig["np.default_rng"] = np.random.default_rng
        np.random.default_rng = FakeGenerator
        for name, fake in _RANDOM_FAKES.items():
            _orig["random." + name] = getattr(_random, name)
            setattr(_random, name, fake)
        _orig["rv_generic.rvs"] = _di.rv_generic.rvs
        _orig["rv_discrete.rvs"] = _di.rv_discrete.rvs
        _di.rv_generic.rvs = _rvs
        _di.rv_discrete.rvs = _rvs
        _installed = True
    _random.seed(seed)
    np.random.seed(seed % (2**32))


def uninstall():
    global _installed
    if _installed:
        for name in _np_fakes():
            setattr(np.random, name, _orig["np." + name])
        np.random.default_rng = _orig["np.default_rng"]
        for name in _RANDOM_FAKES:
            setattr(_random, name, _orig["random." + name])
        _di.rv_generic.rvs = _orig["rv_generic.rvs"]
        _di.rv_discrete.rvs = _orig["rv_discrete.rvs"]
        _installed = False
