"""C12 plug-in: case generation, execution, minimisation, evidence summary."""
import copy
import random as _random

from . import gen
from .past import expr_vars, stmt_count

PROPERTY = "C12"
BATCH = {"quick": 40, "thorough": 60}
RUNS = {"quick": 1600, "thorough": 60000}
TIMEOUT = 900
LEVEL = "exploration"


def gen_case(seed, extra=None):
    rng = _random.Random(seed)
    if rng.random() < 0.12:
        return _gen_sampler_case(rng, seed)
    first = _gen_lockstep(rng, seed)
    if rng.random() < 0.2:
        # several programs simulated one after the other in the same interpreter (as the CLI does for several files)
        seq = [first] + [_gen_lockstep(rng, seed + 1 + i) for i in range(rng.choice([1, 1, 2]))]
        side = _random.Random(f"sibling|{seed}")
        if side.random() < 0.4:
            # the second program is a sibling of the first: same names and conditions, other values / parameters
            sib = gen.sibling(first["prog"], side)
            if sib is not None:
                seq[1] = dict(first, prog=sib, seed=seed + 1)
        if rng.random() < 0.5:
            seq.append(dict(seq[0]))      # the first program once more
        shared = rng.random() < 0.5
        if shared:
            # one Action object for all files and the same goals / iterations / samples, as one CLI call has them
            it, sa = seq[0]["iterations"], seq[0]["samples"]
            for c in seq:
                c.update(mode="action", goals=[[["x", 1]]], iterations=it, samples=sa)
        return {"kind": "sequence", "cases": seq, "seed": seed, "shared_action": shared}
    return first


def _late_pair(prog, side):
    """two variables without initial assignment, first assigned inside the two branches of an if/else in opposite order:
    the order in which a run's state acquires its variables then depends on the run"""
    from .past import num, var
    names = [n for n in ("a", "b", "aa", "bb") if n not in _all_names(prog)][:2]
    if len(names) < 2 or prog["guard"] != ["true"] or "h" in _all_names(prog):
        return None
    a, b = names
    v1, v2 = side.sample([0, 1, 2, 3, 5], 2)
    first = ["if", [[["cmp", var("h"), "==", num(1)], [["assign", a, num(v1)], ["assign", b, num(v2)]]]],
             [["assign", b, num(v1)], ["assign", a, num(v2 if side.random() < 0.7 else v1)]]]
    draw = ["assign", "h", ["draw", "Bernoulli", [num(side.choice(gen.PROB_POOL))]]]
    if side.random() < 0.6:
        # on its own, the coin forgotten after the branch: states of different runs then differ in nothing but the order in
        # which they acquired a and b
        body = [draw, first, ["assign", "h", num(0)]]
        init = [["assign", "h", num(0)], ["assign", "x", num(0)]]      # x: the goal every file of a shared CLI call is asked for
        if side.random() < 0.4:
            init.append(["assign", "n", num(0)])
            body.append(["assign", "n", ["add", var("n"), num(1)]])
        return {"types": [], "init": init, "guard": ["true"], "body": body}, [a, b]
    prog = copy.deepcopy(prog)
    prog["init"] = prog["init"] + [["assign", "h", num(0)]]
    prog["body"] = [draw, first] + prog["body"]
    return prog, [a, b]


def _all_names(prog):
    from .past import assigned_vars
    return set(_init_vars(prog)) | set(assigned_vars(prog["body"]))


def _gen_lockstep(rng, seed):
    prog = gen.gen_c12_program(rng)
    side = _random.Random(f"late|{seed}")
    late = _late_pair(prog, side) if side.random() < 0.04 else None
    if late is not None:
        prog, late_vars = late
        case = _gen_lockstep_rest(rng, seed, prog)
        case["goals"] = [[[late_vars[0], 1]], [[late_vars[1], 1]], [[late_vars[0], 2]]][: side.choice([2, 3])] + case["goals"][:1]
        case["mode"] = side.choice(["simulate", "action"])
        case["goals"] = [g for g in case["goals"] if not isinstance(g, dict)]
        case["samples"] = max(case["samples"], 3)
        case["iterations"] = max(case["iterations"], 2)
        return case
    return _gen_lockstep_rest(rng, seed, prog)


def _gen_lockstep_rest(rng, seed, prog):
    vs = sorted(_init_vars(prog))
    ng = rng.choice([0, 1, 1, 2])
    goals = []
    for _ in range(ng):
        if rng.random() < 0.7 or len(vs) < 2:
            goals.append([[rng.choice(vs), rng.choice([1, 1, 2, 3])]])
        else:
            a, b = rng.sample(vs, 2)
            goals.append([[a, 1], [b, rng.choice([1, 2])]])
    mode = "action" if goals and rng.random() < 0.25 else "simulate"
    if mode == "action" and rng.random() < 0.5:
        # tail probabilities through the CLI action: P(v >= a) <= ?  /  P(v > a) >= ?
        goals.insert(rng.randrange(len(goals) + 1), {"tail": [rng.choice(vs), rng.choice([">=", ">"]), rng.choice(["0", "1", "2", "1/2", "-1"])]})
    return {
        "kind": "lockstep",
        "prog": prog,
        "iterations": rng.choice([1, 2, 3, 4, 5, 6, 8]),
        "samples": rng.choice([1, 1, 2, 3, 4]),
        "goals": goals,
        "seed": seed,
        "policy": rng.choice(["uniform", "coverage", "adversarial", "mixed", "mixed"]),
        "mode": mode,
        "style": rng.choice(["frac", "frac", "decimal", "minimal", "minimal"]),
        "explicit_last": rng.random() < 0.5,
        # the parser option that turns probabilistic choices into a drawn index plus branches (honoured by --simulate)
        "transform_categoricals": rng.random() < 0.15,
    }


def _init_vars(prog):
    vs = set()
    for s in prog["init"]:
        if s[0] == "assign":
            vs.add(s[1])
        elif s[0] == "simul":
            vs.update(s[1])
    return vs


def _gen_sampler_case(rng, seed):
    g = gen.C12Gen(rng)
    g.all = ["x"]
    g.flags = []
    g.smalls = ["x"]
    fam = rng.choice(gen.FAMILIES)
    d = g.draw(fam, state_dep=True)
    st = {}
    for e in d[2]:
        for v in expr_vars(e):
            st[v] = rng.choice(["1", "2", "3/2", "-1", "1/2", "0"])
    return {"kind": "sampler", "family": fam, "params": d[2], "state": st, "seed": seed, "kmax": rng.choice([2, 3, 4])}


def _run_in_child(case):
    from . import c12

    if case["kind"] == "sampler":
        r = c12.run_sampler_case(case)
    elif case["kind"] == "sequence":
        if case.get("shared_action"):
            c0 = case["cases"][0]
            c12.make_shared_action(c0["goals"], c0["iterations"], c0["samples"])
        subs = [c12.run_case(c) for c in case["cases"]]
        bad = [i for i, x in enumerate(subs) if x.get("outcome") == "violation"]
        r = dict(subs[bad[0]] if bad else subs[-1])
        r["sub_outcomes"] = [x.get("outcome") for x in subs]
        r["violating_index"] = bad[0] if bad else None
        r["draws"] = sum(x.get("draws", 0) for x in subs)
        r["sequence_len"] = len(subs)
        r["shared_action"] = bool(case.get("shared_action"))
        r["digest"] = c12._digest([x.get("digest") for x in subs])
        if not bad:
            r["outcome"] = "ok" if any(x.get("outcome") == "ok" for x in subs) else subs[-1].get("outcome")
    else:
        r = c12.run_case(case)
    r["kind"] = case["kind"]
    return r


_preloaded = False


def run_case(case, extra=None):
    """every case runs in a child forked from the pristine worker: no state of Polar survives from one case to the next"""
    global _preloaded
    from . import world
    if not _preloaded:
        import inputparser, simulation, program.distribution, cli.actions.simulation_action  # noqa
        from . import c12, rngseam  # noqa
        _preloaded = True
    r = world.fork_call(_run_in_child, case, timeout=90)
    if r.get("status") in ("child_timeout", "child_died"):
        return {"outcome": "timeout" if r["status"] == "child_timeout" else "harness_error", "kind": case["kind"], "trace": r["status"]}
    if r.get("status") == "harness_error":
        return {"outcome": "harness_error", "kind": case["kind"], "trace": r.get("trace")}
    return r


def vclass(res):
    if res.get("outcome") != "violation":
        return None
    p = res.get("problems") or [{}]
    return p[0].get("kind")


# ---------------------------------------------------------------- minimisation
def _stmt_paths(stmts, prefix):
    out = []
    for i, s in enumerate(stmts):
        out.append(prefix + [i])
        if s[0] == "if":
            for bi, (_, br) in enumerate(s[1]):
                out += _stmt_paths(br, prefix + [i, "b", bi])
            if s[2] is not None:
                out += _stmt_paths(s[2], prefix + [i, "e"])
    return out


def _get_list(prog, path):
    """returns (list, index) addressed by path"""
    cur = prog[path[0]]
    p = path[1:]
    while len(p) > 1:
        i = p[0]
        if p[1] == "b":
            cur = cur[i][1][p[2]][1]
            p = p[3:]
        elif p[1] == "e":
            cur = cur[i][2]
            p = p[2:]
        else:
            raise ValueError(path)
    return cur, p[0]


def _variants(case):
    """candidate simplifications, most aggressive first"""
    if case["kind"] == "sequence":
        cs = case["cases"]
        for i in range(len(cs)):
            if len(cs) > 1:
                c = copy.deepcopy(case)
                del c["cases"][i]
                if len(c["cases"]) == 1:
                    yield c["cases"][0]
                else:
                    yield c
        return
    if case["kind"] != "lockstep":
        return
    if case["samples"] > 1:
        c = copy.deepcopy(case)
        c["samples"] = 1
        yield c
    if case["iterations"] > 1:
        for it in (1, case["iterations"] // 2, case["iterations"] - 1):
            if 1 <= it < case["iterations"]:
                c = copy.deepcopy(case)
                c["iterations"] = it
                yield c
    if case.get("mode") == "action":
        c = copy.deepcopy(case)
        c["mode"] = "simulate"
        yield c
    if case.get("goals"):
        c = copy.deepcopy(case)
        c["goals"] = []
        yield c
    if case.get("style") != "frac":
        c = copy.deepcopy(case)
        c["style"] = "frac"
        yield c
    prog = case["prog"]
    for section in ("body", "init"):
        for path in sorted(_stmt_paths(prog[section], [section]), key=lambda p: (len(p), p), reverse=False):
            c = copy.deepcopy(case)
            lst, idx = _get_list(c["prog"], path)
            if len(lst) <= 1 and section == "body" and len(path) == 2:
                continue
            s = lst[idx]
            del lst[idx]
            if not lst and len(path) > 2:
                continue  # would leave an empty branch
            yield c
            # replace an if by one of its branches
            if s[0] == "if":
                for _, br in s[1]:
                    c2 = copy.deepcopy(case)
                    l2, i2 = _get_list(c2["prog"], path)
                    l2[i2:i2 + 1] = copy.deepcopy(br)
                    yield c2
    if prog["guard"] != ["true"]:
        c = copy.deepcopy(case)
        c["prog"]["guard"] = ["true"]
        yield c
    # resolutions: pull every quantile to the median
    script = case.get("script") or []
    for i, u in enumerate(script):
        if u != 0.5:
            c = copy.deepcopy(case)
            c["script"][i] = 0.5
            yield c


def shrink(case, extra=None):
    """greedy minimisation; only keeps candidates that fail the same way (same first problem kind)"""
    base = run_case(case)
    cls = vclass(base)
    if cls is None:
        return {"outcome": "not_reproduced", "case": case, "result": base}
    cur = copy.deepcopy(case)
    if cur["kind"] == "lockstep":
        cur["script"] = base.get("script", cur.get("script"))
        cur["policy"] = "script"
    if cur["kind"] == "sequence":
        # keep the programs up to the violating one
        vi = base.get("violating_index")
        if vi is not None:
            cur["cases"] = cur["cases"][:vi + 1]
    curres = base
    steps = 0
    improved = True
    while improved and steps < 400:
        improved = False
        for cand in _variants(cur):
            steps += 1
            try:
                r = run_case(cand)
            except Exception:  # noqa
                continue
            if vclass(r) == cls:
                if cand["kind"] == "lockstep" and "script" in r:
                    cand["script"] = r["script"]
                cur, curres = cand, r
                improved = True
                break
            if steps >= 400:
                break
    return {"outcome": "shrunk", "case": cur, "result": curres, "steps": steps, "class": cls}


# ---------------------------------------------------------------- evidence
def summarize(results, tier):
    from collections import Counter

    oc = Counter(r.get("outcome") for r in results)
    kinds = Counter(r.get("kind") for r in results)
    probes = Counter()
    fams = Counter()
    draws = 0
    iters = 0
    paths = set()
    traces = set()
    progs = set()
    samples = []
    notes = Counter()
    for r in results:
        if r.get("kind") in ("lockstep", "sequence") and r.get("outcome") in ("ok", "violation"):
            if r.get("kind") == "sequence":
                probes["multi_program_sequences"] += 1
                probes["shared_action_sequences"] += 1 if r.get("shared_action") else 0
            p = r.get("probes", {})
            for k, v in p.items():
                if k == "families":
                    for f, c in v.items():
                        fams[f] += c
                elif isinstance(v, int):
                    probes[k] += v
            draws += r.get("draws", 0)
            probes["boundary_seeking_resolutions"] += r.get("n_boundary", 0)
            probes["index_draws_of_expanded_choices"] += r.get("index_draws", 0)
            if r.get("draws", 0) >= 1:
                paths.add((r.get("trace_sig"), r.get("path_sig")))
            traces.add(r.get("trace_sig"))
            progs.add(r.get("text"))
            if len(samples) < 4 and r.get("draws", 0) >= 3:
                samples.append({"program": r.get("text"), "resolutions": [round(u, 6) for u in (r.get("script") or [])[:12]],
                                "outcome": r.get("outcome"), "seed": r.get("seed")})
        if r.get("kind") == "sampler" and r.get("outcome") == "ok":
            fams["sampler:" + r.get("family", "?")] += 1
            if len([s for s in samples if "family" in s]) < 2:
                samples.append({"family": r.get("family"), "values": r.get("values"), "seed": r.get("seed")})
        for n in r.get("notes", []) or []:
            notes[n.split(":")[0][:60]] += 1
    nontrivial = len([1 for r in results if r.get("kind") in ("lockstep", "sequence") and r.get("outcome") == "ok" and r.get("draws", 0) >= 1])
    cov = {
        "evaluations": len(results),
        "distinct_nontrivial": len({p for p in paths if p[0]}),
        "rule": "one case = one generated program executed by Polar's real Simulator in lock-step with the reference "
                "interpreter under one scripted resolution path (or one sampler family/parameter vector on a quantile grid); "
                "distinct = distinct (execution-trace hash, resolution-path hash); non-trivial = at least one random request "
                "was a real choice point and the case was judged (ok/violation)",
        "samples": samples or [{"note": "no sample recorded"}],
        "outcomes": dict(oc),
        "case_kinds": dict(kinds),
        "judged_lockstep_with_draws": nontrivial,
        "distinct_programs": len(progs),
        "distinct_execution_traces": len(traces),
        "random_requests_resolved": draws,
        "logical_time_loop_iterations": probes.get("iterations", 0),
        "probes": {k: v for k, v in sorted(probes.items())},
        "families_drawn": dict(sorted(fams.items())),
        "notes": dict(notes),
        "real_components": ["inputparser.Parser", "simulation.Simulator", "simulation.SimulationResult",
                            "program.assignment.*.evaluate*", "program.condition.*.evaluate", "utils.conditions.evaluate_cop",
                            "program.distribution.*.sample/get_support/is_discrete/get_moment",
                            "cli.actions.simulation_action.SimulationAction"],
        "stubbed_components": ["random.* module functions and scipy.stats rvs (the scripted RNG seam)"],
    }
    return cov


REQUIRED_PROBES = ["guard_false_iteration", "elif_taken", "else_taken", "last_outcome_of_3way", "extreme_quantile", "simul_executed"]


def probe_failures(cov):
    bad = [p for p in REQUIRED_PROBES if cov["probes"].get(p, 0) == 0]
    fams = cov["families_drawn"]
    for f in ("norm", "uniform", "laplace", "expon", "truncnorm", "beta", "gamma"):
        if fams.get(f, 0) == 0:
            bad.append("family:" + f)
    return bad


def describe_violation(res):
    p = (res.get("problems") or [{}])[0]
    return f"{res.get('kind')} {p.get('kind')}: {p}"


def finding_signature(res, case):
    """signature used to match known findings: family names involved + problem kind"""
    txt = (res.get("text") or "") + str(case.get("family", ""))
    return {"problem": vclass(res), "has_truncnormal": "TruncNormal" in txt}
