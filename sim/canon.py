"""Canonical results: values, never printed forms.

A closed form becomes a vector of values at n = 0..7 and n = 12, with every free symbol other than
n replaced by a fixed generic rational chosen by sha256(canonical symbol name), at two independent
points.  Rational values are kept exactly ("p/q"); everything else is evaluated to 45 digits.
Auxiliary symbols (_prob4, _old2, …) are renamed (prefix, rank by numeric suffix) — the property
allows exactly this renaming.
"""
import contextlib
import sys
import hashlib
import re
from fractions import Fraction

NS = [0, 1, 2, 3, 4, 5, 6, 7, 12]
AUX = re.compile(r"^_([A-Za-z_]*?)(\d+)$")


@contextlib.contextmanager
def unlimited_ints():
    """the harness converts exact values of any size to text; Polar's own code keeps running under whatever limit the
    interpreter has (the default, unless Polar itself changes it), so the limit is lifted only around harness code"""
    if not hasattr(sys, "get_int_max_str_digits"):
        yield
        return
    old = sys.get_int_max_str_digits()
    sys.set_int_max_str_digits(0)
    try:
        yield
    finally:
        sys.set_int_max_str_digits(old)


def generic_value(name, point):
    h = hashlib.sha256(f"{name}|{point}".encode()).digest()
    num = int.from_bytes(h[:2], "big") % 89 + 7
    den = int.from_bytes(h[2:4], "big") % 97 + 101
    return Fraction(num, den)   # in (0, 1): also admissible as a probability


def aux_renaming(names):
    """{name: canonical} for auxiliary names: same prefix -> ranked by numeric suffix"""
    groups = {}
    for n in names:
        m = AUX.match(n)
        if m:
            groups.setdefault(m.group(1), []).append((int(m.group(2)), n))
    ren = {}
    for prefix, lst in groups.items():
        for rank, (_, n) in enumerate(sorted(set(lst))):
            ren[n] = f"_{prefix}#{rank}"
    return ren


def _value_str(v):
    import sympy
    v = sympy.sympify(v)
    if v.is_Rational:
        return f"{v.p}/{v.q}"
    if v.is_Number and v.is_real is False and v.is_finite is False:
        return str(v)
    try:
        c = sympy.N(v, 50)
        if not c.is_number or c.has(sympy.nan, sympy.zoo, sympy.oo):
            w = v.expand(complex=True)
            if w.is_Rational:
                return f"{w.p}/{w.q}"
            c = sympy.N(w, 50)
        r, i = c.as_real_imag()
        r, i = sympy.Float(r, 45), sympy.Float(i, 45)
        if abs(i) < sympy.Float("1e-30") * max(1, abs(r)):
            return "~" + sympy.Float(r, 40).__str__()
        return "~" + sympy.Float(r, 40).__str__() + "+I*" + sympy.Float(i, 40).__str__()
    except Exception:  # noqa
        return "?" + str(v)[:200]


def canon_closed_form(expr, pieces=None):
    with unlimited_ints():
        return _canon_closed_form(expr, pieces)


def _canon_closed_form(expr, pieces=None):
    """expr: sympy expression in n (possibly Piecewise) — or, with pieces, the list of printed
    special cases followed by the general formula (CLI output).  Returns {"vals": [[...],[...]], "free": [...]}"""
    import sympy

    if pieces is not None:
        exprs = [sympy.sympify(p) for p in pieces]
        free = set()
        for e in exprs:
            free |= e.free_symbols
    else:
        expr = sympy.sympify(expr)
        free = set(expr.free_symbols)
    nsyms = [s for s in free if s.name == "n"]
    params = sorted((s for s in free if s.name != "n"), key=lambda s: s.name)
    ren = aux_renaming([s.name for s in params])
    out = []
    for point in (0, 1):
        sub = {s: sympy.Rational(*_fr(generic_value(ren.get(s.name, s.name), point))) for s in params}
        vals = []
        for k in NS:
            if pieces is not None:
                e = exprs[k] if k < len(exprs) - 1 else exprs[-1]
            else:
                e = expr
            subs = dict(sub)
            for ns in nsyms:
                subs[ns] = k
            try:
                v = e.subs(subs)
                if isinstance(v, sympy.Piecewise) or v.has(sympy.Piecewise):
                    v = sympy.piecewise_fold(v)
                v = v.doit() if hasattr(v, "doit") else v
                vals.append(_value_str(v))
            except Exception as ex:  # noqa
                vals.append("!" + type(ex).__name__)
        out.append(vals)
    try:
        bases = effective_bases(exprs[-1] if pieces is not None else expr)
    except Exception:  # noqa
        bases = None
    return {"vals": out, "free": sorted(ren.get(s.name, s.name) for s in params), "bases": bases}


def effective_bases(expr, digits=60):
    """Growth bases of the general formula: for every additive term the product of b**k over its factors b**(k*n + c),
    as [re, im] decimal strings.  None if the formula is not an exponential polynomial with constant bases (symbolic
    parameters, other functions of n)."""
    import sympy
    e = sympy.sympify(expr)
    n = next((s for s in e.free_symbols if s.name == "n"), None)
    if isinstance(e, sympy.Piecewise):
        e = e.args[-1][0]
    if e.has(sympy.Piecewise) or e.free_symbols - ({n} if n is not None else set()):
        return None
    if n is None:
        return [["1", "0"]] if e != 0 else []
    if sympy.count_ops(e) > 4000:
        return None
    e = sympy.expand(e)
    out = set()
    for term in sympy.Add.make_args(e):
        base = sympy.Integer(1)
        for f in sympy.Mul.make_args(term):
            if not f.has(n):
                continue
            if isinstance(f, sympy.Pow) and not f.base.has(n):
                ex = sympy.expand(f.exp)
                k = ex.coeff(n, 1)
                if (ex - k * n).has(n) or not k.is_number:
                    return None
                base = base * f.base ** k
            elif f.is_polynomial(n):
                continue
            else:
                return None
        re_, im_ = sympy.N(base, digits).as_real_imag()
        out.add((str(re_), str(im_)))
    return sorted([a, b] for a, b in out)


def bases_within(exact_bases, approx_bases, tol):
    """largest distance from an exact base (other than 0 and 1) to the nearest approximate base; None if not comparable"""
    import mpmath
    mpmath.mp.dps = 70
    if exact_bases is None or approx_bases is None:
        return None
    ap = [mpmath.mpc(mpmath.mpf(a), mpmath.mpf(b)) for a, b in approx_bases]
    worst = mpmath.mpf(0)
    for a, b in exact_bases:
        z = mpmath.mpc(mpmath.mpf(a), mpmath.mpf(b))
        if abs(z) < mpmath.mpf(10) ** -50 or abs(z - 1) < mpmath.mpf(10) ** -50:
            continue
        if not ap:
            return None
        worst = max(worst, min(abs(z - c) for c in ap))
    return worst


def _fr(f):
    return f.numerator, f.denominator


def values_equal(a, b, tol=1e-25):
    """compare two value strings produced by _value_str"""
    if a == b:
        return True
    if a.startswith(("!", "?")) or b.startswith(("!", "?")):
        return None   # inconclusive
    try:
        ca, cb = _to_complex(a), _to_complex(b)
    except Exception:  # noqa
        return None
    import mpmath
    d = abs(ca - cb)
    scale = max(1, abs(ca), abs(cb))
    return bool(d <= tol * scale)


def _to_complex(s):
    import mpmath
    mpmath.mp.dps = 50
    if s.startswith("~"):
        s = s[1:]
        if "+I*" in s:
            r, i = s.split("+I*")
            return mpmath.mpc(mpmath.mpf(r), mpmath.mpf(i))
        return mpmath.mpc(mpmath.mpf(s), 0)
    p, q = s.split("/")
    return mpmath.mpc(mpmath.mpf(int(p)) / mpmath.mpf(int(q)), 0)


def max_rel_deviation(a, b):
    import mpmath
    try:
        ca, cb = _to_complex(a), _to_complex(b)
    except Exception:  # noqa
        return None
    return float(abs(ca - cb) / max(1, abs(ca), abs(cb)))


def compare_closed_forms(ca, cb, tol=1e-25):
    """True / False / None(inconclusive)"""
    # The symbols _prob<k> = P(condition) of abstracted conditions denote quantities the closed form does not spell out
    # (Polar prints them in a `where` clause); they were given generic values.  If the two sides do not contain the same
    # ones (one side abstracted a condition, the other typed the variable) the values cannot be compared: inconclusive,
    # never a difference.  Any other auxiliary symbol (the initial value _x_10 of an intermediate version, say) has no
    # business in a result and is compared like an ordinary symbol.
    aux_a = {x for x in ca["free"] if x.startswith("_prob")}
    aux_b = {x for x in cb["free"] if x.startswith("_prob")}
    if aux_a != aux_b:
        return None
    verdict = True
    for va, vb in zip(ca["vals"], cb["vals"]):
        for x, y in zip(va, vb):
            e = values_equal(x, y, tol)
            if e is False:
                return False
            if e is None:
                verdict = None
    return verdict


def canon_typedefs(program):
    with unlimited_ints():
        return _canon_typedefs(program)


def _canon_typedefs(program):
    """Finite types as value sets: {"vars": {original variable: values}, "aux": sorted [(prefix, values)]}.
    Auxiliary variables are compared as a multiset of (prefix, value set): their numbering is exactly
    what the property allows to differ."""
    from program.type import Finite
    orig = {}
    aux = []
    for v, t in program.typedefs.items():
        if not isinstance(t, Finite):
            continue
        try:
            vals = sorted(t.values, key=lambda x: float(x))
        except Exception:  # noqa
            vals = sorted(t.values, key=str)
        vals = [str(x) for x in vals]
        m = AUX.match(str(v))
        if m:
            aux.append([m.group(1), vals])
        else:
            orig[str(v)] = vals
    return {"vars": dict(sorted(orig.items())), "aux": sorted(aux)}


def ideal_equal(basis_a, basis_b):
    """mutual containment of the ideals generated by two lists of polynomial strings"""
    import sympy
    if not basis_a and not basis_b:
        return True
    if bool(basis_a) != bool(basis_b):
        return False
    pa = [sympy.sympify(p) for p in basis_a]
    pb = [sympy.sympify(p) for p in basis_b]
    gens = sorted({s for p in pa + pb for s in p.free_symbols}, key=lambda s: s.name)
    if not gens:
        return True
    try:
        ga = sympy.groebner(pa, *gens, order="grevlex")
        gb = sympy.groebner(pb, *gens, order="grevlex")
        return all(gb.contains(p) for p in pa) and all(ga.contains(p) for p in pb)
    except Exception:  # noqa
        return None
