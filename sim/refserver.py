"""Reference template: a pristine interpreter (PYTHONHASHSEED=0) that forks one child per reference
unit.  A child sees exactly the state of a freshly started Polar process.  Protocol: one JSON
request per line on stdin, one JSON reply per line on the reply fd (stdout belongs to Polar's prints)."""
import json
import os
import sys


def main():
    verif = os.path.dirname(os.path.dirname(os.path.abspath(__file__)))
    repo = os.environ.get("POLAR_REPO", "/repo")
    sys.path.insert(0, verif)
    sys.path.insert(0, repo)
    if hasattr(sys, "set_int_max_str_digits"):
        sys.set_int_max_str_digits(0)
    reply = os.fdopen(int(sys.argv[1]), "w")
    from sim import world
    world.preload()
    reply.write(json.dumps({"ready": True}) + "\n")
    reply.flush()
    for line in sys.stdin:
        line = line.strip()
        if not line:
            continue
        req = json.loads(line)
        if req.get("quit"):
            break
        res = world.fork_call(world.run_unit, req["unit"], req.get("timeout", 300))
        reply.write(json.dumps(res, default=str) + "\n")
        reply.flush()


if __name__ == "__main__":
    main()
