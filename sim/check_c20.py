"""C20 plug-in: histories of interleaved analysis sessions in one interpreter, compared op by op with
the same analysis performed alone in a pristine interpreter under another hash seed."""
import copy
import hashlib
import json
import os
import random as _random
import subprocess
import sys

from . import gen, canon
from .past import render_program, rename_vars

PROPERTY = "C20"
BATCH = {"quick": 5, "thorough": 8}
RUNS = {"quick": 160, "thorough": 3200}
TIMEOUT = 1500
LEVEL = "exploration"
FIXED_BATCHES = True
ASSUMPTIONS = [
    "reference model: the same analysis performed alone in a freshly started interpreter (PYTHONHASHSEED=0)",
    "a session's option vector is written into `settings` before each of its steps (what the CLI does once per process)",
    "results are compared by value at n=0..7,12 and two generic parameter points, types as value sets, invariants as ideals, refusals by exception type",
    "wall-clock timeouts of single analysis steps are inconclusive and end the world",
]
HERE = os.path.dirname(os.path.abspath(__file__))
_corpus = None


def corpus():
    global _corpus
    if _corpus is None:
        with open(os.path.join(HERE, "corpus_data.json")) as f:
            _corpus = json.load(f)
    return _corpus


def batch_hashseed(first_seed):
    return first_seed % 4294967295 + 1 if first_seed % 7 else 0


OPTION_SWARM = [
    {}, {}, {}, {},
    {"exact_func_moments": True},
    {"cond2arithm": True},
    {"transform_categoricals": True},
    {"type_fp_iterations": 5},
    {"numeric_roots": True},
    {"numeric_croots": True},
    {"exact_func_moments": True, "cond2arithm": True},
]
PERTURBATION_KINDS = ["counter", "cache_flush", "gc", "rng", "settings_scramble"]
NAME_POOL = ["t", "u", "r", "a", "b", "c", "k", "s", "x", "y", "z", "w", "p1", "old"]

BAD_PROGRAMS = [
    "x = 0\nwhile true\n    x = x + 1\nend\n",                                   # parse error
    "x = 0\nwhile true:\n    x = Foo(1, 2)\nend\n",                              # unknown distribution
    "x = 0\ny = Normal(0, 1)\nwhile y < 0:\n    y = Normal(y, 1)\n    x = x + 1\nend\n",   # non-finite guard
    "x = 0\nwhile true:\n    if x > 3:\n        x = 0\n    else:\n        x = x + 1\n    end\nend\n",  # condition on infinite variable
    "x = 1\nwhile true:\n    x = Categorical(1/2, 1/3)\nend\n",                   # parameters do not sum to 1
    # refusals of later pipeline stages (a "graceful fallback" added to one of them must not leave anything behind)
    "types\n    c : Finite(0, 1)\nend\nc = Bernoulli(1/2)\nx = 0\nif c == 1:\n    x = 1\nend\nwhile true:\n    x = x + 1\nend\n",   # condition in the initial part, declared types
    "c = Bernoulli(1/2)\nx = 0\nif c == 1:\n    x = 1\nend\nwhile true:\n    x = x + c\nend\n",                    # condition in the initial part
    "x = 0\nc = 0\nu = 0\nwhile true:\n    c = Bernoulli(1/2)\n    u = Normal(0, 1)\n    if c == 1:\n        u = Normal(1, 1)\n    end\n    x = Sin(u)\nend\n",   # function of a conditionally drawn variable
    "x = 0\ny = 0\nwhile true:\n    y = Normal(0, 1)\n    x = Sin(y + 1)\nend\n",                                     # function of an expression
    "x = 0\ny = 0\nwhile true:\n    y = Laplace(0, 1)\n    x = Exp(y)\nend\n",                                        # exponential moment does not exist
    "x = 0\ny = 0\nwhile true:\n    y = Categorical(1/2, 1/2)\n    x = Sin(y)\nend\n",                                # no trigonometric moments for this law
    "x = 0\nwhile true:\n    x = Normal(1)\nend\n",                                                                 # wrong number of parameters
    "types\n    x : Foo(1)\nend\nx = 0\nwhile true:\n    x = 1 - x\nend\n",                                          # unknown type
    "x = 0\ny = 0\nwhile true:\n    y = y + 1\n    if y > x:\n        x = x + 1\n    end\nend\n",                      # condition over unbounded variables
    "x, y = 0\nwhile true:\n    x = x + 1\nend\n",                                                                  # malformed simultaneous assignment
]


def _perturbation(rng, kinds):
    k = rng.choice(kinds)
    if k == "counter":
        if rng.random() < 0.4:
            return {"kind": "counter", "mode": "at_least", "v": rng.choice([1, 2, 3, 4, 5])}
        return {"kind": "counter", "mode": "add", "k": rng.choice([1, 2, 3, 7, 50, 1000])}
    if k == "cache_flush":
        if rng.random() < 0.3:
            return {"kind": "cache_flush", "all": True}
        return {"kind": "cache_flush", "idx": [rng.randrange(64) for _ in range(rng.choice([1, 2, 4, 8]))]}
    if k == "gc":
        return {"kind": "gc"}
    if k == "rng":
        return {"kind": "rng", "k": rng.choice([1, 3, 17])}
    if k == "settings_scramble":
        return {"kind": "settings_scramble", "vec": dict(rng.choice(OPTION_SWARM[4:]))}
    raise ValueError(k)


def _goal_specs(rng, goals, n):
    chosen = rng.sample(goals, min(n, len(goals)))
    out = []
    for g in chosen:
        if "*" not in g and rng.random() < 0.12:
            out.append({"monom": g, "kind": rng.choice(["central", "cumulant"]), "order": 2})
        else:
            out.append({"monom": g, "kind": "raw"})
    return out


def _lib_from_corpus(rng, pid_pool):
    c = corpus()["ok"]
    path = rng.choice(pid_pool) if pid_pool and rng.random() < 0.5 else rng.choice(sorted(c))
    e = c[path]
    goals = _goal_specs(rng, e["goals"], rng.choice([1, 2, 2, 3]))
    spec = {"kind": "lib", "pid": path, "program": {"path": path}, "goals": goals, "options": dict(rng.choice(OPTION_SWARM)),
            "api": rng.choice(["raw", "common", "common"]), "force_cyclic": rng.random() < 0.1}
    if not e["probabilistic"] and not e["symbols"] and len(e["vars"]) <= 3 and rng.random() < 0.4:
        # invariant ideal among the raw goals (InvariantIdeal draws fresh names _b<k>, _inv<k> and iterates over symbol sets)
        spec["goals"] = [{"monom": g, "kind": "raw"} for g in e["goals"] if "*" not in g][:3]
        spec["invariants"] = True
        spec["force_cyclic"] = False
        # invariants among *rounded* closed forms are meaningless: no numeric-root options here
        spec["options"] = {k: v for k, v in spec["options"].items() if not k.startswith("numeric")}
    elif _is_guarded(path) and rng.random() < 0.3:
        spec["goals"] = [{"monom": g["monom"], "kind": "after_loop"} for g in goals if g.get("kind") == "raw"][:2] or goals
    return spec


_guarded = {}


def _is_guarded(path):
    if path not in _guarded:
        try:
            with open(os.path.join(os.environ.get("POLAR_REPO", "/repo"), path)) as f:
                txt = f.read()
            _guarded[path] = "while true" not in txt.replace("  ", " ")
        except OSError:
            _guarded[path] = False
    return _guarded[path]


_GEN_AST = {}


def _lib_generated(rng):
    prog = gen.gen_c05_program(rng)
    names = sorted({s[1] for s in prog["init"] if s[0] == "assign"})
    pool = rng.sample(NAME_POOL, len(names))
    mapping = dict(zip(names, pool)) if rng.random() < 0.6 else {}
    prog = rename_vars(prog, mapping)
    text = render_program(prog, rng.choice(["frac", "frac", "decimal", "minimal"]))
    _GEN_AST["gen:" + hashlib.sha256(text.encode()).hexdigest()[:10]] = prog
    vs = [mapping.get(n, n) for n in names]
    goals = []
    for _ in range(rng.choice([1, 2, 3])):
        v = rng.choice(vs)
        goals.append({"monom": v if rng.random() < 0.6 else f"{v}**2", "kind": "raw"})
    return {"kind": "lib", "pid": "gen:" + hashlib.sha256(text.encode()).hexdigest()[:10], "program": {"text": text}, "goals": goals,
            "options": dict(rng.choice(OPTION_SWARM)), "api": rng.choice(["raw", "common"]), "force_cyclic": False}


BRANCH_DRAWS = ["DiscreteUniform(1, 3)", "DiscreteUniform(0, 2)", "Categorical(1/2, 1/4, 1/4)", "Categorical(1/3, 1/3, 1/3)", "Bernoulli(1/3)"]


def _lib_branch_draw(rng):
    """small programs over a small space of finite draws, drawn inside a branch or at top level: distribution objects,
    their supports and moments must not be shared between the programs of a process"""
    return _branch_draw_variant(rng, rng.choice(BRANCH_DRAWS), rng.random() < 0.5)


def _branch_draw_variant(rng, d, in_branch):
    if in_branch:
        text = f"x = 0\nc = 0\nwhile true:\n    c = Bernoulli(1/2)\n    if c == 1:\n        x = {d}\n    end\nend\n"
        goals = [{"monom": rng.choice(["x", "x**2", "c*x"]), "kind": "raw"}]
    else:
        k = rng.choice([1, 2])
        text = f"y = 1\nz = 0\nwhile true:\n    y = {d}\n    if y == {k}:\n        z = z + 1\n    end\nend\n"
        goals = [{"monom": rng.choice(["z", "y", "y**2", "z*y"]), "kind": "raw"}]
    return {"kind": "lib", "pid": "brd:" + hashlib.sha256(text.encode()).hexdigest()[:10], "program": {"text": text}, "goals": goals,
            "options": dict(rng.choice(OPTION_SWARM[:6])), "api": rng.choice(["raw", "common"]), "force_cyclic": False}


def _lib_functional(rng):
    """Sin / Cos / Exp of a drawn variable, read before it is re-assigned; goals over the function variable and its
    consumers in random order (the recurrence builder keeps per-monomial context for such variables)"""
    if _random.Random(f"fnb|{rng.random()}").random() < 0.3:
        # the function assigned inside branches
        side = _random.Random(f"fnb2|{rng.random()}")
        text, gl = gen.functional_branch_program(side)
        return {"kind": "lib", "pid": "fnb:" + hashlib.sha256(text.encode()).hexdigest()[:10], "program": {"text": text},
                "goals": [{"monom": g, "kind": "raw"} for g in gl], "options": dict(side.choice([{}, {}, {"exact_func_moments": True}, {"cond2arithm": True}])),
                "api": side.choice(["raw", "common", "common"]), "force_cyclic": False}
    d = rng.choice(["Normal(0, 1)", "Uniform(0, 1)", "Normal(1, 1/4)", "Uniform(-1, 1)"])
    fn = rng.choice(["Cos", "Sin", "Exp"])
    init = ["x = 0", f"s = {rng.choice([0, 1, 2, 3, 2])}", "y = 0"]
    if rng.random() < 0.7:
        init.append(f"u = {d}")         # the argument also has an initial draw, before or after the function variable's initial value
    rng.shuffle(init)
    lines = init + ["while true:", f"    u = {d}"]
    body = [f"    x = x + s", f"    s = {fn}(u)"]
    if rng.random() < 0.5:
        body.append("    y = y + s")
    if rng.random() < 0.3:
        body.reverse()
    text = "\n".join(lines + body + ["end"]) + "\n"
    pool = ["s", "x", "x", "y", "s**2", "x*s", "u", "u*s"]
    goals = [{"monom": g, "kind": "raw"} for g in dict.fromkeys(rng.sample(pool, rng.choice([2, 3, 3])))]
    if rng.random() < 0.5:
        # the function variable first, then its consumers: the second goal finds the first one's recurrences cached
        goals = [{"monom": g, "kind": "raw"} for g in dict.fromkeys(["s"] + rng.sample(["x", "y", "x", "x*s"], 2))]
    return {"kind": "lib", "pid": "fun:" + hashlib.sha256(text.encode()).hexdigest()[:10], "program": {"text": text}, "goals": goals,
            "options": dict(rng.choice([{}, {}, {"exact_func_moments": True}])), "api": rng.choice(["raw", "common", "common"]), "force_cyclic": False}


GEOM_FAMILIES = [["2", "4", "8", "1/2", "1/4", "16"], ["3", "9", "1/3", "27"], ["2", "3", "6", "12", "18", "1/6"], ["-2", "4", "-8", "-1/2"],
                 ["-1", "1", "2", "-2"], ["2/3", "4/9", "3/2", "9/4"]]


def _lib_geometric(rng):
    """deterministic loops whose variables grow geometrically with multiplicatively dependent ratios (x = 4*x; y = 2*y gives
    x = y**2): the exponent lattice has a non-trivial basis whose computation sees the ratios in goal order"""
    fam = rng.choice(GEOM_FAMILIES)
    k = rng.choice([2, 2, 3, 3, 4])
    vs = ["x", "y", "z", "w"][:k]
    ratios = [rng.choice(fam) for _ in vs]
    inits = [rng.choice(["1", "1", "2", "3", "-1"]) for _ in vs]
    lines = [f"{v} = {c}" for v, c in zip(vs, inits)]
    body = [f"    {v} = {'(' + r + ')' if r[0] == '-' or '/' in r else r}*{v}" for v, r in zip(vs, ratios)]
    if rng.random() < 0.3:
        lines.append("s = 0")
        body.append(f"    s = s + {rng.choice(vs)}")
        vs = vs + ["s"]
    rng.shuffle(body)
    text = "\n".join(lines + ["while true:"] + body + ["end"]) + "\n"
    goals = [{"monom": v, "kind": "raw"} for v in vs]
    rng.shuffle(goals)
    return {"kind": "lib", "pid": "geo:" + hashlib.sha256(text.encode()).hexdigest()[:10], "program": {"text": text}, "goals": goals,
            "options": {}, "api": rng.choice(["raw", "common"]), "force_cyclic": False, "invariants": True}


def _lib_error(rng):
    c = corpus()
    r = rng.random()
    if r < 0.35:
        path = rng.choice(sorted(c["refused"]))
        return {"kind": "lib", "pid": path, "program": {"path": path}, "goals": [{"monom": "x", "kind": "raw"}], "options": {}, "api": "common"}
    if r < 0.7:
        text = rng.choice(BAD_PROGRAMS)
        return {"kind": "lib", "pid": "bad:" + hashlib.sha256(text.encode()).hexdigest()[:8], "program": {"text": text},
                "goals": [{"monom": "x", "kind": "raw"}], "options": {}, "api": "raw"}
    # unknown goal variable / non-effective goal with solvability check
    path = rng.choice(sorted(c["ok"]))
    return {"kind": "lib", "pid": path, "program": {"path": path}, "goals": [{"monom": "qqq", "kind": "raw"}] + _goal_specs(rng, c["ok"][path]["goals"], 1),
            "options": {}, "api": "common", "solvability_check": rng.random() < 0.5}


def _files_sharing_goal(rng, n):
    c = corpus()["ok"]
    byvar = {}
    for p, e in c.items():
        for g in e["goals"]:
            if "*" not in g:
                byvar.setdefault(g, []).append(p)
    cands = sorted(v for v, ps in byvar.items() if len(ps) >= n)
    v = rng.choice(cands)
    files = rng.sample(sorted(byvar[v]), n)
    return v, files


def _multi_file(rng, kind):
    c = corpus()["ok"]
    n = rng.choice([1, 2, 2, 3])
    r = rng.random()
    if r < 0.3:
        # --invariants without goals: the goals are derived from each program's own variables
        small = sorted(p for p, e in c.items() if len(e["vars"]) <= 3 and not e["probabilistic"] and not e["symbols"])
        files = rng.sample(small, min(n, len(small)))
        ns = {"invariants": True, "goals": []}
        argv = ["--invariants"]
    else:
        v, files = _files_sharing_goal(rng, n)
        goals = [f"E({v})"] + ([f"E({v}**2)"] if rng.random() < 0.3 and all(f"{v}**2" in c[f]["goals"] for f in files) else [])
        if all(f"{v}**2" in c[f]["goals"] for f in files):
            # goal kinds that need different numbers of raw moments of the same monomial, in random order
            pool = [f"c2({v})", f"k2({v})", f"k3({v})", f"c3({v})", f"P({v}>=5)<=?", f"P({v}>1)>=?"]
            for g in rng.sample(pool, rng.choice([0, 0, 1, 2, 2, 3])):
                goals.append(g)
        rng.shuffle(goals)
        ns = {"goals": goals}
        argv = ["--goals"] + goals
        if rng.random() < 0.3:
            ns["tail_bound_moments"] = 3
            argv += ["--tail_bound_moments", "3"]
        if _random.Random(f"atn|{files}|{goals}").random() < 0.25:
            # values at a fixed iteration are printed as well
            ns["at_n"] = 5
            argv += ["--at_n", "5"]
    fl = [{"path": p} for p in files]
    if kind == "cli":
        return {"kind": "cli", "pid": "cli:" + "+".join(files), "files": fl, "argv": argv, "options": {}}
    return {"kind": "action", "pid": "act:" + "+".join(files), "files": fl, "namespace": ns, "options": {}}


BN_FILES = ["bayesnet/repo/small/cancer.bif", "bayesnet/repo/small/earthquake.bif", "bayesnet/repo/small/survey.bif",
            "bayesnet/repo/small/asia.bif", "bayesnet/repo/testcases/rain.bif", "bayesnet/repo/testcases/asia_modified.bif"]
_bn_vars = {}


def _bn_variables(path):
    """[(name, [values])] read from the BIF text (only to phrase queries)"""
    import re as _re
    if path not in _bn_vars:
        out = []
        try:
            with open(os.path.join(os.environ.get("POLAR_REPO", "/repo"), path)) as f:
                txt = f.read()
            for m in _re.finditer(r"variable\s+(\S+)\s*\{[^}]*?type\s+discrete\s*\[\s*\d+\s*\]\s*\{([^}]*)\}", txt, _re.S):
                out.append((m.group(1), [v.strip() for v in m.group(2).split(",") if v.strip()]))
        except OSError:
            pass
        _bn_vars[path] = out
    return _bn_vars[path]


def _bn_action(rng):
    """BayesNetworkAction: BIF import, code generation (name sanitising draws from `random`), exact inference / sampling time"""
    path = rng.choice(BN_FILES)
    vs = _bn_variables(path)
    if len(vs) < 2:
        return _sensitivity_action(rng)
    target = rng.choice(vs)
    ev = rng.sample([v for v in vs if v[0] != target[0]], rng.choice([1, 1, 2]) if len(vs) > 2 else 1)
    evidence = ", ".join(f"{n} = {rng.choice(vals)}" for n, vals in ev)
    ns = {}
    if rng.random() < 0.7:
        ns["exact_inference"] = f"{target[0]}**{rng.choice([1, 1, 2])} | {evidence}"
    else:
        ns["sample_time_until"] = evidence
    return {"kind": "action", "pid": "bn:" + path, "files": [{"path": path}], "namespace": ns, "options": {}}


def _sensitivity_action(rng):
    """SensitivityAction (recurrences of derivatives, or differentiated closed forms) on a program with a symbolic constant"""
    c = corpus()["ok"]
    # generated constants (_prob<k>) are not addressable: their names are exactly what may differ between histories
    syms = lambda e: [x for x in e["symbols"] if not x.startswith("_")]
    cands = sorted(p for p, e in c.items() if syms(e) and any("*" not in g for g in e["goals"]))
    path = rng.choice(cands)
    e = c[path]
    plain = [g for g in e["goals"] if "*" not in g]
    vs = rng.sample(plain, min(len(plain), rng.choice([1, 2, 2, 3])))      # several goals: their order must not matter
    sym = rng.choice(syms(e))
    ns = {"goals": [f"E({v})" for v in vs]}
    ns["sensitivity_analysis" if rng.random() < 0.5 else "sensitivity_analysis_diff"] = sym
    if rng.random() < 0.5:
        # a small parametric loop in which one goal variable feeds the other
        upd_y = rng.choice(["y = y + 1", "y = y + 1 {p} y", "y = y + p", "y = y + 1 {1/2} y - 1"])
        upd_x = rng.choice(["x = x + p*y", "x = x + y {p} x", "x = x + y", "x = p*x + y"])
        body = [upd_y, upd_x] if rng.random() < 0.7 else [upd_x, upd_y]
        text = "x = 0\ny = 0\nwhile true:\n    " + "\n    ".join(body) + "\nend\n"
        if "p" in text.replace("end", ""):
            goals = [f"E({v})" for v in rng.sample(["x", "y"], 2)] + ([f"E(x*y)"] if rng.random() < 0.3 else [])
            ns = {"goals": goals, ("sensitivity_analysis" if rng.random() < 0.6 else "sensitivity_analysis_diff"): "p"}
            return {"kind": "action", "pid": "sens:" + hashlib.sha256(text.encode()).hexdigest()[:10], "files": [{"text": text}], "namespace": ns, "options": {}}
    return {"kind": "action", "pid": "sens:" + path, "files": [{"path": path}], "namespace": ns, "options": {}}


def gen_case(seed, extra=None):
    rng = _random.Random(seed)
    tier = (extra or {}).get("tier", "quick")
    sessions = []
    ops = []
    if rng.random() < 0.3:
        sessions.append(_multi_file(rng, "cli"))
    nsess = rng.choice([2, 2, 3, 3, 4, 5, 6])
    pid_pool = []
    while len(sessions) < nsess:
        r = rng.random()
        if r < 0.39:
            s = _lib_from_corpus(rng, pid_pool)
        elif r < 0.42:
            s = _lib_functional(rng)
        elif r < 0.68:
            s = _lib_generated(rng)
        elif r < 0.685:
            s = _lib_functional(rng)
        elif r < 0.71:
            s = _lib_geometric(rng)
            if rng.random() < 0.6:
                # the same ratios a second time in this process: goals in another order, or attached to other variables
                sessions.append(s)
                s = copy.deepcopy(s)
                if rng.random() < 0.5:
                    s["goals"] = s["goals"][1:] + s["goals"][:1]
                else:
                    text = s["program"]["text"].replace("x", "#").replace("y", "x").replace("#", "y")
                    s.update(pid="geo:" + hashlib.sha256(text.encode()).hexdigest()[:10], program={"text": text})
        elif r < 0.76:
            # a pair over the same draw: once inside a branch, once at top level
            d = rng.choice(BRANCH_DRAWS)
            sessions.append(_branch_draw_variant(rng, d, True))
            s = _branch_draw_variant(rng, d, rng.random() < 0.3)
        elif r < 0.8:
            s = _lib_error(rng)
        elif r < 0.84:
            s = _sensitivity_action(rng)
        elif r < 0.88:
            # two queries against networks of the same small pool: query objects must not share state
            sessions.append(_bn_action(rng))
            s = _bn_action(rng)
            if rng.random() < 0.6:
                s2 = _bn_action(rng)
                s2["files"], s2["pid"] = sessions[-1]["files"], sessions[-1]["pid"]
                vs = _bn_variables(s2["files"][0]["path"])
                if len(vs) >= 2:
                    t = rng.choice(vs)
                    e = rng.choice([v for v in vs if v[0] != t[0]])
                    s2["namespace"] = {"exact_inference": f"{t[0]}**1 | {e[0]} = {rng.choice(e[1])}"}
                    s = s2
        else:
            s = _multi_file(rng, "action")
        if s["kind"] == "lib" and s["program"].get("path") in corpus()["ok"]:
            pid_pool.append(s["program"]["path"])
        sessions.append(s)
    if rng.random() < 0.35 and any(s["kind"] == "lib" for s in sessions):
        # the same program again, goals permuted
        libs = [s for s in sessions if s["kind"] == "lib"]
        gens = [s for s in libs if str(s.get("pid", "")).startswith(("gen:", "geo:"))]
        base = rng.choice(gens) if gens and rng.random() < 0.7 else rng.choice(libs)
        dup = copy.deepcopy(base)
        rng.shuffle(dup["goals"])
        if rng.random() < 0.5:
            dup["options"] = dict(rng.choice(OPTION_SWARM))
            if dup.get("invariants"):
                dup["options"] = {k: v for k, v in dup["options"].items() if not k.startswith("numeric")}
        sessions.append(dup)
    side = _random.Random(f"sibling|{seed}")        # its own stream: worlds without a sibling stay what they were
    gens = [s for s in sessions if s["kind"] == "lib" and s.get("pid") in _GEN_AST]
    if gens and side.random() < 0.3:
        # a sibling of a generated program in the same world: same names and conditions, other value sets / parameters
        base = side.choice(gens)
        sib = gen.sibling(_GEN_AST[base["pid"]], side)
        if sib is not None:
            text = render_program(sib, side.choice(["frac", "frac", "minimal"]))
            s2 = copy.deepcopy(base)
            s2.update(pid="sib:" + hashlib.sha256(text.encode()).hexdigest()[:10], program={"text": text})
            sessions.insert(side.randrange(len(sessions) + 1) if sessions[0]["kind"] != "cli" else side.randrange(1, len(sessions) + 1), s2)
    if side.random() < 0.25:
        # one more refused program somewhere in the world (refusals of every pipeline stage, BAD_PROGRAMS)
        text = side.choice(BAD_PROGRAMS)
        bad = {"kind": "lib", "pid": "bad:" + hashlib.sha256(text.encode()).hexdigest()[:8], "program": {"text": text},
               "goals": [{"monom": "x", "kind": "raw"}], "options": {}, "api": side.choice(["raw", "common"])}
        sessions.insert(side.randrange(1 if sessions[0]["kind"] == "cli" else 0, len(sessions) + 1), bad)
    # step lists
    from .sessions import make_session
    remaining = []
    for sid, s in enumerate(sessions):
        names = make_session(s).step_names()
        if s["kind"] == "lib" and rng.random() < 0.15:
            names = names[:rng.randrange(1, len(names) + 1)]   # abandoned half-way
        if s["kind"] == "lib" and rng.random() < 0.2:
            names = names + [n for n in names if n.startswith("goal:")][:1]   # identical op again
        remaining.append(names)
    enabled = [k for k in PERTURBATION_KINDS if rng.random() < 0.6]
    plain = rng.random() < 0.25 or not enabled
    order = []
    if sessions[0]["kind"] == "cli":
        order.append(0)
        remaining[0] = remaining[0][1:] if False else remaining[0]
    live = [i for i in range(len(sessions)) if remaining[i]]
    interleave = rng.random() < 0.75
    ptr = [0] * len(sessions)
    cur = None
    while live:
        if sessions[live[0]]["kind"] == "cli" and ptr[live[0]] == 0:
            sid = live[0]
        elif interleave or cur not in live:
            sid = rng.choice(live)
        else:
            sid = cur
        cur = sid
        step = remaining[sid][ptr[sid]]
        ptr[sid] += 1
        op = {"sid": sid, "step": step, "pre": []}
        if not plain and rng.random() < 0.4:
            op["pre"] = [_perturbation(rng, enabled) for _ in range(rng.choice([1, 1, 2]))]
        if sessions[sid]["kind"] == "cli" and not plain:
            op["between"] = {str(i): [_perturbation(rng, [k for k in enabled if k != "settings_scramble"] or ["gc"])]
                             for i in range(1, len(sessions[sid]["files"])) if rng.random() < 0.6}
        ops.append(op)
        if ptr[sid] >= len(remaining[sid]):
            live.remove(sid)
    wf = {}
    if not plain and rng.random() < 0.12:
        wf["cache_shrink"] = rng.choice([1, 2, 4])
    return {"kind": "history", "sessions": sessions, "ops": ops, "world_flags": wf, "rng_seed": seed % 1000003,
            "step_cap": 20 if tier == "quick" else 40, "seed": seed, "plain": plain}


# ---------------------------------------------------------------- reference units
def unit_key(spec):
    return hashlib.sha256(json.dumps(spec, sort_keys=True).encode()).hexdigest()


def reference_units(sess):
    """split a session into units that are analysed alone: per goal (lib), per file (action / cli)"""
    k = sess["kind"]
    units = {}
    if k == "lib":
        base = {kk: sess[kk] for kk in ("kind", "program", "options", "api", "force_cyclic", "solvability_check") if kk in sess}
        for i, g in enumerate(sess.get("goals", [])):
            spec = dict(base, goals=[g])
            units[f"goal:{i}"] = spec
        units["head"] = dict(base, goals=[])
        if sess.get("invariants"):
            units["invariants"] = dict(base, goals=sorted(sess["goals"], key=lambda g: json.dumps(g, sort_keys=True)), invariants=True)
    elif k == "action":
        gl = sess["namespace"].get("goals") or []
        for i, f in enumerate(sess["files"]):
            if len(gl) > 1 and not sess["namespace"].get("invariants"):
                # goal order must not matter: every goal is also analysed alone
                units[f"file:{i}"] = [{"kind": "action", "files": [f], "namespace": dict(sess["namespace"], goals=[g]), "options": sess.get("options", {})}
                                      for g in gl]
            else:
                units[f"file:{i}"] = {"kind": "action", "files": [f], "namespace": sess["namespace"], "options": sess.get("options", {})}
    elif k == "cli":
        argv = list(sess["argv"])
        gl = argv[argv.index("--goals") + 1:] if "--goals" in argv else []
        gl = gl[: next((j for j, a in enumerate(gl) if a.startswith("--")), len(gl))]
        rest = [a for a in argv if a not in gl and a != "--goals"]
        for i, f in enumerate(sess["files"]):
            if len(gl) > 1 and "--invariants" not in argv:
                units[f"file:{i}"] = [{"kind": "cli", "files": [f], "argv": ["--goals", g] + rest, "options": sess.get("options", {})} for g in gl]
            else:
                units[f"file:{i}"] = {"kind": "cli", "files": [f], "argv": sess["argv"], "options": sess.get("options", {})}
    return units


def merged_file_reference(unit_or_list, refget, step_name):
    """reference result for one file: a single unit, or the per-goal units merged into one file result"""
    if not isinstance(unit_or_list, list):
        r = refget(unit_or_list)
        if r.get("status") != "done":
            return None
        st = r["steps"].get(step_name)
        if step_name == "main":
            if not st or st.get("status") != "ok":
                return None
            return st["data"]["per_file"][0]
        return st
    merged = {"status": "ok", "data": {"goals": {}, "invariants": None}}
    for u in unit_or_list:
        r = refget(u)
        if r.get("status") != "done":
            return None
        st = r["steps"].get(step_name)
        if step_name == "main":
            if not st or st.get("status") != "ok":
                return None
            st = st["data"]["per_file"][0]
        if st is None or st["status"] in ("timeout", "skipped"):
            return {"status": "timeout"}
        if st["status"] != "ok":
            # the file's run stops at the first goal that raises: later goals are not reached
            merged["first_refusal"] = {"status": st["status"], "etype": st.get("etype")}
            break
        merged["data"]["goals"].update(st["data"]["goals"])
    return merged


class RefClient:
    def __init__(self):
        self.proc = None
        self.cache = {}
        self.reply = None

    def start(self):
        r, w = os.pipe()
        env = dict(os.environ)
        env["PYTHONHASHSEED"] = "0"
        self.proc = subprocess.Popen([sys.executable, os.path.join(HERE, "refserver.py"), str(w)], stdin=subprocess.PIPE,
                                     stdout=subprocess.DEVNULL, stderr=subprocess.DEVNULL, env=env, pass_fds=(w,), text=True)
        os.close(w)
        self.reply = os.fdopen(r, "r")
        ready = self.reply.readline()
        if "ready" not in ready:
            raise RuntimeError("reference template did not start")

    def get(self, spec, step_cap):
        key = unit_key(spec)
        if key in self.cache:
            return self.cache[key]
        if self.proc is None:
            self.start()
        self.proc.stdin.write(json.dumps({"unit": {"spec": spec, "step_cap": step_cap}, "timeout": step_cap * 6 + 30}) + "\n")
        self.proc.stdin.flush()
        line = self.reply.readline()
        if not line:
            raise RuntimeError("reference template died")
        res = json.loads(line)
        self.cache[key] = res
        return res

    def close(self):
        if self.proc is not None:
            try:
                self.proc.stdin.write(json.dumps({"quit": True}) + "\n")
                self.proc.stdin.flush()
                self.proc.wait(timeout=10)
            except Exception:  # noqa
                self.proc.kill()


_ref = None


def ref_client():
    global _ref
    if _ref is None:
        _ref = RefClient()
        import atexit
        atexit.register(_ref.close)
    return _ref


# ---------------------------------------------------------------- comparison
NUMERIC_TOL = 1e-6


def _numeric(sess):
    o = sess.get("options") or {}
    argv = sess.get("argv") or []
    return bool(o.get("numeric_roots") or o.get("numeric_croots") or "--numeric_roots" in argv or "--numeric_croots" in argv)


def _cmp_goal(w, r, numeric=False):
    """w, r: step results of a goal.  returns (verdict, detail): verdict in ok / diff / inconclusive.
    numeric: the session runs under numeric-root options - its results are rounded within the requested precision, and
    which recurrence system a monomial is solved in (hence the rounding) legitimately depends on the goals asked before;
    values are then compared with a tolerance and the exactness flag is not compared."""
    if w["status"] in ("timeout", "skipped") or r["status"] in ("timeout", "skipped"):
        return "inconclusive", None
    if w["status"] != r["status"]:
        return "diff", {"what": "status", "world": w["status"] + ":" + w.get("etype", ""), "alone": r["status"] + ":" + r.get("etype", "")}
    if w["status"] == "refused":
        if w["etype"] != r["etype"]:
            return "diff", {"what": "error-type", "world": w["etype"], "alone": r["etype"]}
        return "ok", None
    wd, rd = w["data"], r["data"]
    e = canon.compare_closed_forms(wd["cf"], rd["cf"], NUMERIC_TOL if numeric else 1e-25)
    if e is False:
        return "diff", {"what": "closed-form", "world": wd["cf"]["vals"][0][:6], "alone": rd["cf"]["vals"][0][:6]}
    if not numeric and wd.get("exact") is not None and rd.get("exact") is not None and wd["exact"] != rd["exact"]:
        return "diff", {"what": "is_exact", "world": wd["exact"], "alone": rd["exact"]}
    return ("ok" if e else "inconclusive"), None


def _cmp_status(w, r):
    if w["status"] in ("timeout", "skipped") or r["status"] in ("timeout", "skipped"):
        return "inconclusive", None
    if w["status"] != r["status"] or w.get("etype") != r.get("etype"):
        return "diff", {"what": "status", "world": w["status"] + ":" + w.get("etype", ""), "alone": r["status"] + ":" + r.get("etype", "")}
    return "ok", None


def _cmp_file(w, r):
    """per-file result of an action / cli session against the single-file (and single-goal) runs"""
    if r.get("first_refusal"):
        # alone, one of the goals is refused: the run over all goals must be refused in the same way
        fr = r["first_refusal"]
        if w["status"] in ("timeout", "skipped"):
            return "inconclusive", None
        if w["status"] != fr["status"] or w.get("etype") != fr.get("etype"):
            return "diff", {"what": "status", "world": w["status"] + ":" + w.get("etype", ""), "alone": fr["status"] + ":" + str(fr.get("etype"))}
        return "ok", None
    v, d = _cmp_status(w, r)
    if v != "ok" or w["status"] != "ok":
        return v, d
    wg, rg = w["data"]["goals"], r["data"]["goals"]
    if sorted(wg) != sorted(rg):
        return "diff", {"what": "goal-set", "world": sorted(wg), "alone": sorted(rg)}
    verdict = "ok"
    for g in wg:
        if "bounds" in wg[g] or "bounds" in rg[g]:
            wb, rb = wg[g].get("bounds") or [], rg[g].get("bounds") or []
            if len(wb) != len(rb):
                return "diff", {"what": "tail-bound-count", "goal": g, "world": len(wb), "alone": len(rb)}
            for x, y in zip(wb, rb):
                e = canon.compare_closed_forms(x, y)
                if e is False:
                    return "diff", {"what": "tail-bound", "goal": g, "world": x["vals"][0][:6], "alone": y["vals"][0][:6]}
                if e is None:
                    verdict = "inconclusive"
            if wg[g].get("exact") != rg[g].get("exact"):
                return "diff", {"what": "is_exact", "goal": g, "world": wg[g].get("exact"), "alone": rg[g].get("exact")}
            continue
        e = canon.compare_closed_forms(wg[g]["cf"], rg[g]["cf"])
        if e is False:
            return "diff", {"what": "closed-form", "goal": g, "world": wg[g]["cf"]["vals"][0][:6], "alone": rg[g]["cf"]["vals"][0][:6]}
        if e is None:
            verdict = "inconclusive"
        if wg[g]["exact"] != rg[g]["exact"]:
            return "diff", {"what": "is_exact", "goal": g, "world": wg[g]["exact"], "alone": rg[g]["exact"]}
    wi, ri = w["data"].get("invariants"), r["data"].get("invariants")
    if (wi is None) != (ri is None):
        return "diff", {"what": "invariants-presence"}
    if wi is not None:
        e = canon.ideal_equal(wi, ri)
        if e is False:
            return "diff", {"what": "invariants", "world": wi[:3], "alone": ri[:3]}
        if e is None:
            verdict = "inconclusive"
    return verdict, None


def judge(history, wres, refget):
    """compare every op of the world with its reference unit.  returns (problems, stats)"""
    problems = []
    stats = {"compared": 0, "inconclusive": 0, "ok": 0, "units": 0}
    sessions = history["sessions"]
    unit_cache = {}
    results = wres["results"]
    seen_refused_before = False
    for oi, (op, w) in enumerate(zip(history["ops"], results)):
        sess = sessions[op["sid"]]
        units = unit_cache.setdefault(op["sid"], reference_units(sess))
        step = op["step"]
        verdict, detail = "ok", None
        if w["status"] == "skipped":
            continue
        if w.get("canary"):
            # canaries ran under whatever options this step left behind; alone they run under the options the session owns
            from .world import CANARIES
            for ci, (spec, steps) in enumerate(zip(CANARIES, w["canary"])):
                r = refget(dict(spec, options=w.get("canary_options") or {}))
                stats["units"] += 1
                if r.get("status") != "done":
                    continue
                for name, wr in steps.items():
                    rr = r["steps"].get(name)
                    if rr is None:
                        continue
                    v3, d3 = (_cmp_goal(wr, rr, _numeric({"options": w.get("canary_options")})) if name.startswith("goal:") else _cmp_status(wr, rr))
                    if v3 == "diff":
                        problems.append(dict(d3, op=oi, sid=op["sid"], step=f"{step}+canary:{ci}:{name}", session_kind=sess["kind"], pid=sess.get("pid"),
                                             note="an analysis performed right after this step, under the options the session had set, differs: the step changed global options"))
        if w.get("knob_canary"):
            # the step changed an interpreter-global setting (recursion limit, integer-text limit, working directory): analyses whose
            # outcome depends on such a setting ran right after it and must behave as they do in a fresh interpreter
            from .world import KNOB_CANARIES
            for ci, (spec, steps) in enumerate(zip(KNOB_CANARIES, w["knob_canary"])):
                r = refget(dict(spec))
                stats["units"] += 1
                if r.get("status") != "done":
                    continue
                for name, wr in steps.items():
                    rr = r["steps"].get(name)
                    if rr is None or wr.get("status") in ("timeout", "skipped") or rr.get("status") in ("timeout", "skipped"):
                        continue
                    v3, d3 = _cmp_status(wr, rr)
                    if v3 == "diff":
                        problems.append(dict(d3, op=oi, sid=op["sid"], step=f"{step}+knob-canary:{ci}:{name}", session_kind=sess["kind"], pid=sess.get("pid"),
                                             knobs_changed=w.get("knobs_changed"),
                                             note="the step changed an interpreter-global setting; an analysis performed right after it behaves differently than in a fresh interpreter"))
                        break
        if sess["kind"] == "lib":
            if step in ("parse", "normalize"):
                r = refget(units["head"])
                stats["units"] += 1
                if r.get("status") != "done" or step not in r["steps"]:
                    verdict = "inconclusive"
                else:
                    rs = r["steps"][step]
                    verdict, detail = _cmp_status(w, rs)
                    if verdict == "ok" and step == "normalize" and w["status"] == "ok":
                        if w["data"]["typedefs"] != rs["data"]["typedefs"]:
                            verdict, detail = "diff", {"what": "typedefs", "world": w["data"]["typedefs"], "alone": rs["data"]["typedefs"]}
            elif step.startswith("goal:"):
                r = refget(units[step])
                stats["units"] += 1
                if r.get("status") != "done" or "goal:0" not in r["steps"]:
                    verdict = "inconclusive"
                else:
                    verdict, detail = _cmp_goal(w, r["steps"]["goal:0"], _numeric(sess))
            elif step == "invariants":
                r = refget(units["invariants"])
                if r.get("status") != "done" or "invariants" not in r["steps"]:
                    verdict = "inconclusive"
                else:
                    rs = r["steps"]["invariants"]
                    verdict, detail = _cmp_status(w, rs)
                    if verdict == "ok" and w["status"] == "ok":
                        e = canon.ideal_equal(w["data"]["basis"], rs["data"]["basis"])
                        verdict = "ok" if e else ("inconclusive" if e is None else "diff")
                        detail = {"what": "invariants"} if e is False else None
        elif sess["kind"] == "action":
            if step == "create":
                continue
            rs = merged_file_reference(units[step], refget, "file:0")
            stats["units"] += 1
            if rs is None:
                verdict = "inconclusive"
            else:
                verdict, detail = _cmp_file(w, rs)
        elif sess["kind"] == "cli":
            if w["status"] != "ok":
                verdict = "inconclusive"
            else:
                for fi, pf in enumerate(w["data"]["per_file"]):
                    if pf["status"] == "not_reached":
                        continue
                    rpf = merged_file_reference(units[f"file:{fi}"], refget, "main")
                    stats["units"] += 1
                    if rpf is None:
                        stats["inconclusive"] += 1
                        continue
                    v2, d2 = _cmp_file(pf, rpf)
                    stats["compared"] += 1
                    if v2 == "diff":
                        problems.append(dict(d2, op=oi, sid=op["sid"], step=f"main/file:{fi}", session_kind="cli",
                                             file=sess["files"][fi].get("path", "<text>")))
                    elif v2 == "inconclusive":
                        stats["inconclusive"] += 1
                    else:
                        stats["ok"] += 1
                continue
        stats["compared"] += 1
        if verdict == "diff":
            problems.append(dict(detail, op=oi, sid=op["sid"], step=step, session_kind=sess["kind"], pid=sess.get("pid")))
        elif verdict == "inconclusive":
            stats["inconclusive"] += 1
        else:
            stats["ok"] += 1
    return problems, stats


def run_case(case, extra=None):
    from . import world
    world.preload()
    cap = case.get("step_cap", 20)
    nops = len(case["ops"])
    wres = world.fork_call(world.run_history, case, timeout=min(cap * (nops + 2) + 60, 12 * cap))
    out = {"kind": "history", "hashseed": os.environ.get("PYTHONHASHSEED")}
    if wres.get("status") != "done":
        out["outcome"] = "harness_error" if wres.get("status") == "harness_error" else "timeout"
        out["trace"] = wres.get("trace")
        return out
    rc = ref_client()
    problems, stats = judge(case, wres, lambda spec: rc.get(spec, cap))
    statuses = [r["status"] for r in wres["results"]]
    out.update({
        "outcome": "violation" if problems else "ok",
        "problems": problems[:5],
        "stats": stats,
        "fired": wres["fired"],
        "n_ops": nops,
        "n_sessions": len(case["sessions"]),
        "statuses": {s: statuses.count(s) for s in set(statuses)},
        "had_timeout": "timeout" in statuses or stats.get("inconclusive", 0) > 0,
        "contexts": wres["contexts"],
        "cache_hits": wres["cache_hits"],
        "counter_end": wres["counter_end"],
        "truecond_dirty": sum(1 for m in wres["monitors"] if not m["truecond_clean"]),
        "interleaving": _interleaving_sig(case),
        "probes": _probes(case, wres),
        "digest": hashlib.sha256(json.dumps({"ops": case["ops"], "res": [_strip(r) for r in wres["results"]]}, sort_keys=True, default=str).encode()).hexdigest()[:16],
    })
    if problems:
        out["text"] = describe_history(case, problems[0])
    else:
        out["case_desc"] = describe_history(case, {})
    return out


def _strip(r):
    r = dict(r)
    r.pop("wall", None)
    r.pop("plog", None)
    if r.get("status") == "refused":
        r.pop("msg", None)
    for key in ("canary", "knob_canary"):
        if r.get(key):
            # the steps of canary analyses carry wall-clock times as well
            r[key] = [{name: _strip(st) for name, st in steps.items()} for steps in r[key]]
    return r


def _interleaving_sig(case):
    return hashlib.sha256(",".join(f"{o['sid']}:{o['step']}" for o in case["ops"]).encode()).hexdigest()[:12]


def _probes(case, wres):
    p = {}
    sids = [o["sid"] for o in case["ops"]]
    switches = sum(1 for a, b in zip(sids, sids[1:]) if a != b)
    p["session_switches"] = switches
    p["three_or_more_sessions_interleaved"] = 1 if len(set(sids)) >= 3 and switches >= 4 else 0
    p["cache_hit_world"] = 1 if wres["cache_hits"] > 0 else 0
    st = [r["status"] for r in wres["results"]]
    p["op_after_natural_error"] = 1 if "refused" in st and st.index("refused") < len(st) - 1 else 0
    pids = [s.get("pid") for s in case["sessions"]]
    p["same_program_twice"] = 1 if len(set(pids)) < len(pids) else 0
    p["cli_multi_file"] = 1 if any(s["kind"] == "cli" and len(s["files"]) > 1 for s in case["sessions"]) else 0
    p["action_multi_file"] = 1 if any(s["kind"] == "action" and len(s["files"]) > 1 for s in case["sessions"]) else 0
    p["counter_collision_candidate"] = 1 if any(pp.get("mode") == "at_least" for o in case["ops"] for pp in o.get("pre", [])) else 0
    p["cache_shrink_world"] = 1 if case.get("world_flags", {}).get("cache_shrink") else 0
    p["sensitivity_session"] = 1 if any(str(s.get("pid", "")).startswith("sens:") for s in case["sessions"]) else 0
    p["bayes_network_session"] = 1 if any(str(s.get("pid", "")).startswith("bn:") for s in case["sessions"]) else 0
    p["lib_invariants_session"] = 1 if any(s.get("invariants") for s in case["sessions"] if s["kind"] == "lib") else 0
    p["after_loop_goal"] = 1 if any(g.get("kind") == "after_loop" for s in case["sessions"] if s["kind"] == "lib" for g in s.get("goals", [])) else 0
    p["abandoned_or_repeated"] = 1
    # cause hint: a step after which the global options no longer equal the owning session's vector (CLI sessions own argv's options)
    p["canaries_run"] = sum(1 for r in wres["results"] if r.get("canary"))
    p["knob_changes_seen"] = sum(1 for r in wres["results"] if r.get("knobs_changed"))
    p["settings_changed_during_step"] = sum(1 for o, r in zip(case["ops"], wres["results"])
                                            if r.get("settings_as_owned") is False and r.get("status") in ("ok", "refused")
                                            and case["sessions"][o["sid"]]["kind"] != "cli")
    return p


def describe_history(case, problem):
    lines = [f"history of {len(case['sessions'])} sessions / {len(case['ops'])} ops; world_flags={case.get('world_flags')}"]
    for i, s in enumerate(case["sessions"]):
        src = s.get("program", {}).get("path") or ("<inline>" if s["kind"] == "lib" else ",".join(f.get("path", "<inline>") for f in s.get("files", [])))
        lines.append(f"  session {i}: {s['kind']} {src} goals={s.get('goals') or s.get('namespace', {}).get('goals') or s.get('argv')} options={s.get('options')}")
    for i, o in enumerate(case["ops"]):
        mark = "  <== differs from the analysis run alone" if i == problem.get("op") else ""
        lines.append(f"  op {i}: session {o['sid']} {o['step']} pre={[p['kind'] for p in o.get('pre', [])]}{mark}")
    return "\n".join(lines)


def vclass(res):
    if res.get("outcome") != "violation":
        return None
    p = res["problems"][0]
    return f"{p.get('session_kind')}:{p.get('what')}"


def finding_signature(res, case):
    """a run counts as known finding F9 only if *every* reported difference is a RecursionError on one side of a
    session whose goal list contains a lower tail bound P(M > a) >= ?"""
    probs = res.get("problems") or []

    def is_f9(p):
        if p.get("what") != "status" or "RecursionError" not in (str(p.get("world")) + str(p.get("alone"))):
            return False
        try:
            sess = case["sessions"][p["sid"]]
        except Exception:  # noqa
            return False
        goals = (sess.get("namespace") or {}).get("goals") or sess.get("argv") or []
        return any(g.startswith("P(") and ">=?" in g.replace(" ", "") and "<=" not in g for g in goals)

    return {"class": vclass(res), "recursion_error_with_lower_tail_bound": bool(probs) and all(is_f9(p) for p in probs)}


def describe_violation(res):
    return json.dumps(res["problems"][0], default=str)[:800]


# ---------------------------------------------------------------- minimisation
def _drop_session(case, sid):
    c = copy.deepcopy(case)
    c["ops"] = [o for o in c["ops"] if o["sid"] != sid]
    # keep session indices stable: replace by an empty placeholder
    return c


def _variants(case, bad_op):
    ops = case["ops"]
    bad_sid = ops[bad_op]["sid"] if bad_op is not None and bad_op < len(ops) else None
    sids = sorted({o["sid"] for o in ops})
    for sid in sids:
        if sid != bad_sid:
            yield _drop_session(case, sid)
    if case.get("world_flags"):
        c = copy.deepcopy(case)
        c["world_flags"] = {}
        yield c
    # drop all perturbations, then single ones
    if any(o.get("pre") or o.get("between") for o in ops):
        c = copy.deepcopy(case)
        for o in c["ops"]:
            o["pre"] = []
            o.pop("between", None)
        yield c
    for i, o in enumerate(ops):
        if o.get("pre"):
            c = copy.deepcopy(case)
            c["ops"][i]["pre"] = []
            yield c
        if o.get("between"):
            c = copy.deepcopy(case)
            c["ops"][i].pop("between")
            yield c
    # drop single ops that are not needed by later ops of the same session (goals, files)
    inv_sids = {o["sid"] for o in ops if o["step"] == "invariants"}
    for i, o in enumerate(ops):
        if i == bad_op:
            continue
        if o["sid"] in inv_sids and o["step"].startswith("goal:"):
            continue      # the invariants step computes with the closed forms of these goals
        if o["step"].startswith(("goal:", "file:")) or o["step"] == "invariants":
            c = copy.deepcopy(case)
            del c["ops"][i]
            yield c
    # shorten multi-file sessions
    for sid, s in enumerate(case["sessions"]):
        if s["kind"] in ("cli",) and len(s["files"]) > 2:
            for drop in range(len(s["files"])):
                c = copy.deepcopy(case)
                del c["sessions"][sid]["files"][drop]
                yield c


def shrink(case, extra=None):
    base = run_case(case)
    cls = vclass(base)
    if cls is None:
        return {"outcome": "not_reproduced", "case": case, "result": base}
    cur, curres = copy.deepcopy(case), base
    steps = 0
    improved = True
    while improved and steps < 60:
        improved = False
        bad_op = curres["problems"][0].get("op")
        for cand in _variants(cur, bad_op):
            steps += 1
            r = run_case(cand)
            if vclass(r) == cls:
                cur, curres = cand, r
                improved = True
                break
            if steps >= 60:
                break
    return {"outcome": "shrunk", "case": cur, "result": curres, "steps": steps, "class": cls}


# ---------------------------------------------------------------- evidence
def summarize(results, tier):
    from collections import Counter

    oc = Counter(r.get("outcome") for r in results)
    fired = Counter()
    probes = Counter()
    contexts = set()
    inter = set()
    hashseeds = set()
    ops = 0
    compared = 0
    incon = 0
    units = 0
    status = Counter()
    samples = []
    for r in results:
        if r.get("outcome") not in ("ok", "violation"):
            continue
        for k, v in (r.get("fired") or {}).items():
            fired[k] += v
        for k, v in (r.get("probes") or {}).items():
            probes[k] += v
        contexts.update(r.get("contexts") or [])
        inter.add(r.get("interleaving"))
        hashseeds.add(r.get("hashseed"))
        ops += r.get("n_ops", 0)
        st = r.get("stats") or {}
        compared += st.get("compared", 0)
        incon += st.get("inconclusive", 0)
        units += st.get("units", 0)
        for k, v in (r.get("statuses") or {}).items():
            status[k] += v
        probes["truecond_dirty_steps"] += r.get("truecond_dirty", 0)
    for r in results:
        if len(samples) >= 3:
            break
        if r.get("outcome") == "ok" and r.get("case_desc"):
            samples.append(r["case_desc"])
    return {
        "evaluations": len(results),
        "distinct_nontrivial": len(contexts),
        "rule": "one case = one world: a history of 2-7 interleaved analysis sessions (library API steps, Action objects over several "
                "files, the real polar.main()) with perturbations of process-global state, executed in one interpreter and compared op "
                "by op with the same analysis run alone in a pristine interpreter (PYTHONHASHSEED=0); distinct_nontrivial = number of "
                "distinct contexts at the start of a checked op (hash of option vector, class flag, counter bucket, per-cache occupancy, "
                "programs analysed so far, kind of previous op)",
        "samples": samples or [{"note": "no sample recorded"}],
        "outcomes": dict(oc),
        "worlds_judged": oc.get("ok", 0) + oc.get("violation", 0),
        "logical_time_ops": ops,
        "ops_compared_with_reference": compared,
        "ops_inconclusive": incon,
        "reference_unit_lookups": units,
        "op_statuses": dict(status),
        "perturbations_fired": dict(fired),
        "probes": dict(sorted(probes.items())),
        "distinct_contexts": len(contexts),
        "distinct_interleavings": len(inter),
        "distinct_world_hashseeds": len(hashseeds),
        "real_components": ["polar.main", "cli.actions.* (GoalsAction via ActionFactory)", "inputparser.Parser", "program.normalize_program",
                            "recurrences.RecBuilder / RecurrenceSolver", "cli.common.*", "invariants.InvariantIdeal", "settings", "utils.identifiers"],
        "stubbed_components": ["none (stdout captured; wall-clock 'Elapsed time' line ignored)"],
    }


REQUIRED = ["three_or_more_sessions_interleaved", "cache_hit_world", "op_after_natural_error", "same_program_twice", "cli_multi_file",
            "counter_collision_candidate"]


def probe_failures(cov):
    bad = [p for p in REQUIRED if cov["probes"].get(p, 0) == 0]
    if cov.get("distinct_world_hashseeds", 0) < 8:
        bad.append("distinct_world_hashseeds<8")
    return bad
