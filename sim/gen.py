"""Seeded program generators over the AST in past.py.

All randomness comes from the `random.Random` instance passed in (never from the module-level
functions of `random`, which the RNG seam replaces).
"""
from fractions import Fraction

from .past import num, var

DYADIC = [Fraction(1, 2), Fraction(1, 4), Fraction(3, 4), Fraction(3, 2), Fraction(5, 2)]
SMALL_INTS = [-2, -1, 0, 1, 2, 3]
PROB_POOL = [Fraction(1, 2), Fraction(1, 3), Fraction(1, 4), Fraction(2, 3), Fraction(3, 4), Fraction(1, 5),
             Fraction(1, 10), Fraction(9, 10), Fraction(1, 8)]

FAMILIES = ["Bernoulli", "Categorical", "DiscreteUniform", "Normal", "Uniform", "Laplace", "DistExp",
            "TruncNormal", "Beta", "Gamma"]
DISCRETE_FAMILIES = ["Bernoulli", "Categorical", "DiscreteUniform"]


def rand_probs(rng, k):
    """k positive Fractions adding up to 1"""
    denom = rng.choice([2, 3, 4, 5, 6, 8, 10, 12])
    while denom < k:
        denom *= 2
    cuts = sorted(rng.sample(range(1, denom), k - 1))
    parts = [b - a for a, b in zip([0] + cuts, cuts + [denom])]
    return [Fraction(p, denom) for p in parts]


def const(rng, ints_only=False):
    if ints_only or rng.random() < 0.7:
        return num(rng.choice(SMALL_INTS))
    c = rng.choice(DYADIC)
    return num(c if rng.random() < 0.7 else -c)


def fstr(f):
    f = Fraction(f)
    return f"{f.numerator}/{f.denominator}" if f.denominator != 1 else str(f.numerator)


class C12Gen:
    """Programs for the simulator lock-step: every construct, all ten families, nested
    if/elif/else whose conditions mention variables assigned inside the branches, guards that exit
    with probability in (0,1), state-dependent parameters."""

    def __init__(self, rng, families=None):
        self.rng = rng
        self.families = families or FAMILIES
        self.flags = []      # 0/1 valued
        self.smalls = []     # small finite integer valued
        self.reals = []      # anything
        self.all = []

    # -- expressions -------------------------------------------------------
    def lin_expr(self, pool=None, allow_const=True):
        rng = self.rng
        pool = pool or self.all
        v = var(rng.choice(pool))
        r = rng.random()
        if r < 0.25:
            return v
        if r < 0.55:
            return [rng.choice(["add", "sub"]), v, const(rng)]
        if r < 0.7:
            return ["mul", const(rng), v]
        if r < 0.85 and len(pool) > 1:
            w = var(rng.choice(pool))
            return [rng.choice(["add", "sub"]), v, w]
        return ["add", ["mul", const(rng), v], const(rng)]

    def poly_expr(self):
        rng = self.rng
        r = rng.random()
        if r < 0.6:
            return self.lin_expr()
        if r < 0.75:
            return ["mul", self.lin_expr(self.bounded_pool()), var(rng.choice(self.all))]
        if r < 0.85:
            return ["pow", self.lin_expr(self.bounded_pool()), 2]
        if r < 0.92:
            return ["neg", self.lin_expr()]
        return ["add", ["mul", var(rng.choice(self.bounded_pool())), var(rng.choice(self.bounded_pool()))], const(rng)]

    def bounded_pool(self):
        return (self.flags + self.smalls) or self.all

    # -- right-hand sides ----------------------------------------------------
    def draw(self, family=None, state_dep=True):
        rng = self.rng
        fam = family or rng.choice(self.families)
        dep = state_dep and rng.random() < 0.4 and self.all
        loc = self.lin_expr() if dep else const(rng)
        pos = lambda: num(rng.choice([1, 2, 3, Fraction(1, 2), Fraction(1, 4), 4]))
        if fam == "Bernoulli":
            return ["draw", fam, [num(rng.choice(PROB_POOL))]]
        if fam == "Categorical":
            return ["draw", fam, [num(p) for p in rand_probs(rng, rng.choice([2, 3, 4]))]]
        if fam == "DiscreteUniform":
            a = rng.choice([-2, -1, 0, 1])
            return ["draw", fam, [num(a), num(a + rng.choice([1, 2, 3, 5]))]]
        if fam == "Normal":
            if dep and rng.random() < 0.5:
                s2 = ["add", ["pow", var(rng.choice(self.bounded_pool())), 2], pos()]
            else:
                s2 = pos()
            return ["draw", fam, [loc, s2]]
        if fam == "Uniform":
            if dep:
                return ["draw", fam, [loc, ["add", loc, pos()]]]
            a = rng.choice([-2, -1, 0, 1])
            return ["draw", fam, [num(a), num(a + rng.choice([1, 2, 3, Fraction(1, 2)]))]]
        if fam == "Laplace":
            return ["draw", fam, [loc, pos()]]
        if fam == "DistExp":
            if dep and rng.random() < 0.5:
                return ["draw", fam, [["div", num(1), ["add", ["pow", var(rng.choice(self.bounded_pool())), 2], pos()]]]]
            return ["draw", fam, [pos()]]
        if fam == "TruncNormal":
            mu = rng.choice([-1, 0, 1, 2])
            a = mu + rng.choice([-3, -2, -1, Fraction(-1, 2), 0, 1])
            b = a + rng.choice([1, 2, 3, 4])
            return ["draw", fam, [num(mu), pos(), num(a), num(b)]]
        if fam == "Beta":
            ps = [pos(), pos()]
            if rng.random() < 0.5:
                ps.append(pos())
            return ["draw", fam, ps]
        if fam == "Gamma":
            return ["draw", fam, [pos(), pos()]]
        raise ValueError(fam)

    def choice(self):
        rng = self.rng
        k = rng.choice([2, 2, 3, 3, 4])
        probs = rand_probs(rng, k)
        items = []
        for i in range(k):
            e = self.lin_expr() if rng.random() < 0.6 and self.all else const(rng)
            items.append([e, fstr(probs[i])])
        if rng.random() < 0.5:
            items[-1][1] = None
        return ["choice", items]

    def func(self):
        rng = self.rng
        f = rng.choice(["Sin", "Cos", "Exp"])
        if rng.random() < 0.3 or not self.bounded_pool():
            return ["func", f, num(rng.choice([0, 1, 2, Fraction(1, 2), 3]))]
        return ["func", f, var(rng.choice(self.bounded_pool()))]

    def rhs(self, kinds=None):
        rng = self.rng
        k = rng.choice(kinds or ["poly", "poly", "choice", "draw", "draw", "func"])
        if k == "poly":
            return self.poly_expr()
        if k == "choice":
            return self.choice()
        if k == "draw":
            return self.draw()
        return self.func()

    # -- conditions ----------------------------------------------------------
    def atom(self):
        rng = self.rng
        r = rng.random()
        if self.flags and r < 0.4:
            return ["cmp", var(rng.choice(self.flags)), "==", num(rng.choice([0, 1]))]
        if self.smalls and r < 0.7:
            return ["cmp", var(rng.choice(self.smalls)), rng.choice(["==", "<", ">", "<=", ">="]), num(rng.choice([-1, 0, 1, 2]))]
        v = rng.choice(self.all)
        if rng.random() < 0.3 and len(self.all) > 1:
            return ["cmp", var(v), rng.choice(["<", ">", "<=", ">="]), var(rng.choice(self.all))]
        return ["cmp", self.lin_expr(), rng.choice(["<", ">", "<=", ">="]), const(rng)]

    def cond(self, depth=0):
        rng = self.rng
        r = rng.random()
        if depth >= 2 or r < 0.6:
            return self.atom()
        if r < 0.75:
            return ["and", self.cond(depth + 1), self.cond(depth + 1)]
        if r < 0.9:
            return ["or", self.cond(depth + 1), self.cond(depth + 1)]
        return ["not", self.cond(depth + 1)]

    # -- statements ----------------------------------------------------------
    def target(self):
        return self.rng.choice(self.all)

    def stmt(self, depth, budget):
        rng = self.rng
        r = rng.random()
        if depth < 2 and budget[0] > 2 and r < 0.3:
            nb = rng.choice([1, 1, 2, 2, 3])
            branches = []
            cvars = set()
            for _ in range(nb):
                c = self.cond()
                branches.append([c, None])
            for b in branches:
                b[1] = self.block(depth + 1, budget, rng.choice([1, 1, 2]), prefer=None)
            els = self.block(depth + 1, budget, rng.choice([1, 2])) if rng.random() < 0.6 else None
            return ["if", branches, els]
        if r < 0.42 and len(self.all) >= 2:
            k = rng.choice([2, 2, 3]) if len(self.all) >= 3 else 2
            vs = rng.sample(self.all, k)
            if rng.random() < 0.5:
                # rotation / swap
                rh = [var(v) for v in vs[1:] + vs[:1]]
                if rng.random() < 0.5:
                    rh[0] = ["add", rh[0], var(vs[0])]
            else:
                rh = [self.rhs(["poly", "poly", "choice", "draw"]) for _ in vs]
            budget[0] -= 1
            return ["simul", vs, rh]
        budget[0] -= 1
        t = self.target()
        if t in self.flags:
            rr = rng.random()
            if rr < 0.6:
                return ["assign", t, ["draw", "Bernoulli", [num(rng.choice(PROB_POOL))]]]
            if rr < 0.8:
                return ["assign", t, ["choice", [[num(0), fstr(rng.choice(PROB_POOL))], [num(1), None]]]]
            return ["assign", t, ["sub", num(1), var(t)]]
        if t in self.smalls:
            rr = rng.random()
            if rr < 0.35:
                return ["assign", t, self.draw(rng.choice(["Categorical", "DiscreteUniform"]), False)]
            if rr < 0.6:
                return ["assign", t, ["choice", [[num(rng.choice([0, 1, 2])), fstr(rng.choice(PROB_POOL))], [num(rng.choice([-1, 0, 3])), None]]]]
            if rr < 0.8:
                return ["assign", t, num(rng.choice([0, 1, 2]))]
            return ["assign", t, var(rng.choice(self.flags + self.smalls))]
        return ["assign", t, self.rhs()]

    def block(self, depth, budget, n, prefer=None):
        out = []
        for _ in range(n):
            if budget[0] <= 0:
                break
            out.append(self.stmt(depth, budget))
        if not out:
            budget[0] -= 1
            out.append(["assign", self.target(), self.lin_expr()])
        return out

    def program(self):
        rng = self.rng
        nf = rng.choice([1, 1, 2])
        ns = rng.choice([0, 1, 1, 2])
        nr = rng.choice([1, 2, 2, 3])
        names = ["f", "g", "h", "s", "k", "m", "x", "y", "z", "w"]
        self.flags = names[0:nf]
        self.smalls = names[3:3 + ns]
        self.reals = names[6:6 + nr]
        self.all = self.flags + self.smalls + self.reals
        init = []
        avail = []
        saved_all = self.all
        for v in self.all:
            self.all = avail  # initial right-hand sides may only read initialised variables
            if v in self.flags:
                rhs = num(rng.choice([0, 1])) if rng.random() < 0.6 else ["draw", "Bernoulli", [num(rng.choice(PROB_POOL))]]
            elif v in self.smalls:
                rhs = num(rng.choice([0, 1, 2])) if rng.random() < 0.6 else self.draw(rng.choice(["Categorical", "DiscreteUniform"]), False)
            else:
                r = rng.random()
                if r < 0.5 or not avail:
                    rhs = const(rng)
                elif r < 0.75:
                    rhs = self.draw(None, state_dep=bool(avail))
                elif r < 0.9:
                    rhs = self.choice()
                else:
                    rhs = self.lin_expr()
            init.append(["assign", v, rhs])
            avail = avail + [v]
        self.all = saved_all
        if rng.random() < 0.25 and len(self.reals) >= 2:
            # simultaneous initialisation as in the documentation loops
            vs = self.reals[:2]
            pos = min(i for i, s in enumerate(init) if s[1] in vs)
            init = init[:pos] + [["simul", vs, [const(rng), const(rng)]]] + [s for s in init[pos:] if s[1] not in vs]
        # guard
        r = rng.random()
        if r < 0.3:
            guard = ["true"]
        elif r < 0.65:
            guard = ["cmp", var(self.flags[0]), "==", num(rng.choice([0, 1]))]
        elif r < 0.8 and self.smalls:
            guard = ["cmp", var(self.smalls[0]), rng.choice(["<", "<=", "==", ">"]), num(rng.choice([0, 1, 2]))]
        elif r < 0.9:
            guard = ["cmp", var(self.reals[0]), rng.choice(["<", ">"]), num(rng.choice([0, 1, 3]))]
        else:
            guard = self.cond()
        budget = [rng.choice([2, 3, 4, 5, 6, 8, 10])]
        body = self.block(0, budget, budget[0])
        return {"types": [], "init": init, "guard": guard, "body": body}


def gen_c12_program(rng, families=None):
    return C12Gen(rng, families).program()
