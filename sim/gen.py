"""Seeded program generators over the AST in past.py.

All randomness comes from the `random.Random` instance passed in (never from the module-level
functions of `random`, which the RNG seam replaces).
"""
from fractions import Fraction

from .past import num, var

DYADIC = [Fraction(1, 2), Fraction(1, 4), Fraction(3, 4), Fraction(3, 2), Fraction(5, 2)]
SMALL_INTS = [-2, -1, 0, 1, 2, 3]
PROB_POOL = [Fraction(1, 2), Fraction(1, 3), Fraction(1, 4), Fraction(2, 3), Fraction(3, 4), Fraction(1, 5),
             Fraction(1, 10), Fraction(9, 10), Fraction(1, 8)]

FAMILIES = ["Bernoulli", "Categorical", "DiscreteUniform", "Normal", "Uniform", "Laplace", "DistExp",
            "TruncNormal", "Beta", "Gamma"]
DISCRETE_FAMILIES = ["Bernoulli", "Categorical", "DiscreteUniform"]


def compound_probability(items, rng):
    """writes one probability that is not the last one as a sum or difference ({1/8 + 1/8}, {3/8 - 1/8}) and leaves the last
    one implicit: the implicit probability has to subtract the *whole* expression"""
    cands = [i for i, it in enumerate(items[:-1]) if isinstance(it[1], str)]
    if not cands:
        return False
    i = rng.choice(cands)
    try:
        pr = Fraction(items[i][1])
    except ValueError:
        # a symbolic probability p: {p/2 + p/2}
        half = ["mul", num(Fraction(1, 2)), var(items[i][1])]
        items[i][1] = ["add", half, half]
        items[-1][1] = None
        return True
    if rng.random() < 0.6:
        a = pr / 2 if rng.random() < 0.5 else pr / 4
        items[i][1] = ["add", num(a), num(pr - a)]
    else:
        c = Fraction(1, rng.choice([8, 16, 10]))
        items[i][1] = ["sub", num(pr + c), num(c)]
    items[-1][1] = None
    return True


def rand_probs(rng, k):
    """k positive Fractions adding up to 1"""
    denom = rng.choice([2, 3, 4, 5, 6, 8, 10, 12])
    while denom < k:
        denom *= 2
    cuts = sorted(rng.sample(range(1, denom), k - 1))
    parts = [b - a for a, b in zip([0] + cuts, cuts + [denom])]
    return [Fraction(p, denom) for p in parts]


def const(rng, ints_only=False):
    if ints_only or rng.random() < 0.7:
        return num(rng.choice(SMALL_INTS))
    c = rng.choice(DYADIC)
    return num(c if rng.random() < 0.7 else -c)


def fstr(f):
    f = Fraction(f)
    return f"{f.numerator}/{f.denominator}" if f.denominator != 1 else str(f.numerator)


class C12Gen:
    """Programs for the simulator lock-step: every construct, all ten families, nested
    if/elif/else whose conditions mention variables assigned inside the branches, guards that exit
    with probability in (0,1), state-dependent parameters."""

    def __init__(self, rng, families=None):
        self.rng = rng
        self.families = families or FAMILIES
        self.flags = []      # 0/1 valued
        self.smalls = []     # small finite integer valued
        self.reals = []      # anything
        self.probs = []      # variables that always hold a value in [0,1] and are used as probabilities
        self.all = []

    def prob_update(self, q):
        rng = self.rng
        r = rng.random()
        if r < 0.35:
            return ["mul", num(Fraction(1, 2)), var(q)]
        if r < 0.6:
            return ["sub", num(1), var(q)]
        if r < 0.8:
            return ["mul", var(q), var(q)]
        return ["mul", num(Fraction(1, 2)), ["add", var(q), num(1)]]

    # -- expressions -------------------------------------------------------
    def lin_expr(self, pool=None, allow_const=True):
        rng = self.rng
        pool = pool or self.all
        v = var(rng.choice(pool))
        r = rng.random()
        if r < 0.25:
            return v
        if r < 0.55:
            return [rng.choice(["add", "sub"]), v, const(rng)]
        if r < 0.7:
            return ["mul", const(rng), v]
        if r < 0.85 and len(pool) > 1:
            w = var(rng.choice(pool))
            return [rng.choice(["add", "sub"]), v, w]
        return ["add", ["mul", const(rng), v], const(rng)]

    def poly_expr(self):
        rng = self.rng
        r = rng.random()
        if r < 0.6:
            return self.lin_expr()
        if r < 0.75:
            return ["mul", self.lin_expr(self.bounded_pool()), var(rng.choice(self.all))]
        if r < 0.85:
            return ["pow", self.lin_expr(self.bounded_pool()), 2]
        if r < 0.92:
            return ["neg", self.lin_expr()]
        return ["add", ["mul", var(rng.choice(self.bounded_pool())), var(rng.choice(self.bounded_pool()))], const(rng)]

    def bounded_pool(self):
        return (self.flags + self.smalls) or self.all

    # -- right-hand sides ----------------------------------------------------
    def draw(self, family=None, state_dep=True):
        rng = self.rng
        fam = family or rng.choice(self.families)
        dep = state_dep and rng.random() < 0.4 and self.all
        loc = self.lin_expr() if dep else const(rng)
        pos = lambda: num(rng.choice([1, 2, 3, Fraction(1, 2), Fraction(1, 4), 4, Fraction(3, 2), Fraction(3, 4), Fraction(5, 2), Fraction(3, 100)]))
        if fam == "Bernoulli":
            if self.probs and rng.random() < 0.5:
                return ["draw", fam, [var(rng.choice(self.probs))]]
            return ["draw", fam, [num(rng.choice(PROB_POOL))]]
        if fam == "Categorical":
            ps = [num(p) for p in rand_probs(rng, rng.choice([2, 3, 4]))]
            if rng.random() < 0.25:
                ps.insert(rng.randrange(len(ps) + 1), num(0))      # a category that never occurs
            return ["draw", fam, ps]
        if fam == "DiscreteUniform":
            a = rng.choice([-2, -1, 0, 1])
            return ["draw", fam, [num(a), num(a + rng.choice([1, 2, 3, 5]))]]
        if fam == "Normal":
            if dep and rng.random() < 0.5:
                s2 = ["add", ["pow", var(rng.choice(self.bounded_pool())), 2], pos()]
            else:
                s2 = pos()
            return ["draw", fam, [loc, s2]]
        if fam == "Uniform":
            if dep and rng.random() < 0.35:
                # constant lower bound, state-dependent upper bound
                a = rng.choice([-1, 0, 0])
                return ["draw", fam, [num(a), ["add", ["pow", var(rng.choice(self.bounded_pool())), 2], pos()]]]
            if dep:
                return ["draw", fam, [loc, ["add", loc, pos()]]]
            a = rng.choice([-2, -1, 0, 1])
            return ["draw", fam, [num(a), num(a + rng.choice([1, 2, 3, Fraction(1, 2)]))]]
        if fam == "Laplace":
            return ["draw", fam, [loc, pos()]]
        if fam == "DistExp":
            if dep and rng.random() < 0.5:
                return ["draw", fam, [["div", num(1), ["add", ["pow", var(rng.choice(self.bounded_pool())), 2], pos()]]]]
            return ["draw", fam, [pos()]]
        if fam == "TruncNormal":
            mu = rng.choice([-1, 0, 1, 2])
            a = mu + rng.choice([-3, -2, -1, Fraction(-1, 2), 0, 1])
            b = a + rng.choice([1, 2, 3, 4])
            return ["draw", fam, [num(mu), pos(), num(a), num(b)]]
        if fam == "Beta":
            ps = [pos(), pos()]
            if rng.random() < 0.5:
                ps.append(pos())
            return ["draw", fam, ps]
        if fam == "Gamma":
            return ["draw", fam, [pos(), pos()]]
        raise ValueError(fam)

    def choice(self):
        rng = self.rng
        if self.probs and rng.random() < 0.5:
            q = rng.choice(self.probs)
            e1 = self.lin_expr() if rng.random() < 0.6 and self.all else const(rng)
            e2 = self.lin_expr() if rng.random() < 0.6 and self.all else const(rng)
            return ["choice", [[e1, var(q)], [e2, None if rng.random() < 0.5 else ["sub", num(1), var(q)]]]]
        k = rng.choice([2, 2, 3, 3, 4])
        probs = rand_probs(rng, k)
        items = []
        for i in range(k):
            e = self.lin_expr() if rng.random() < 0.6 and self.all else const(rng)
            items.append([e, fstr(probs[i])])
        if k >= 3 and rng.random() < 0.1:
            # an alternative that is written down but never taken: probability 0 (not the last one), its mass goes to another
            i = rng.randrange(k - 1)
            j = rng.choice([x for x in range(k) if x != i])
            probs[j] += probs[i]
            probs[i] = Fraction(0)
            for idx in range(k):
                items[idx][1] = fstr(probs[idx])
        if rng.random() < 0.5:
            items[-1][1] = None
        if rng.random() < 0.12:
            compound_probability(items, rng)
        return ["choice", items]

    def func(self):
        rng = self.rng
        f = rng.choice(["Sin", "Cos", "Exp"])
        if rng.random() < 0.3 or not self.bounded_pool():
            return ["func", f, num(rng.choice([0, 1, 2, Fraction(1, 2), 3]))]
        return ["func", f, var(rng.choice(self.bounded_pool()))]

    def rhs(self, kinds=None):
        rng = self.rng
        k = rng.choice(kinds or ["poly", "poly", "choice", "draw", "draw", "func"])
        if k == "poly":
            return self.poly_expr()
        if k == "choice":
            return self.choice()
        if k == "draw":
            return self.draw()
        return self.func()

    # -- conditions ----------------------------------------------------------
    def atom(self):
        rng = self.rng
        r = rng.random()
        if self.flags and r < 0.4:
            return ["cmp", var(rng.choice(self.flags)), "==", num(rng.choice([0, 1]))]
        if self.smalls and r < 0.7:
            return ["cmp", var(rng.choice(self.smalls)), rng.choice(["==", "<", ">", "<=", ">="]), num(rng.choice([-1, 0, 1, 2]))]
        v = rng.choice(self.all)
        if rng.random() < 0.3 and len(self.all) > 1:
            return ["cmp", var(v), rng.choice(["<", ">", "<=", ">="]), var(rng.choice(self.all))]
        return ["cmp", self.lin_expr(), rng.choice(["<", ">", "<=", ">="]), const(rng)]

    def cond(self, depth=0):
        rng = self.rng
        r = rng.random()
        if depth >= 1 and r < 0.04:
            return [rng.choice(["true", "false"])]
        if depth >= 2 or r < 0.6:
            return self.atom()
        if r < 0.75:
            return ["and", self.cond(depth + 1), self.cond(depth + 1)]
        if r < 0.9:
            return ["or", self.cond(depth + 1), self.cond(depth + 1)]
        return ["not", self.cond(depth + 1)]

    # -- statements ----------------------------------------------------------
    def target(self):
        return self.rng.choice(self.all)

    def stmt(self, depth, budget):
        rng = self.rng
        r = rng.random()
        if depth < 2 and budget[0] > 2 and r < 0.3:
            nb = rng.choice([1, 1, 2, 2, 3])
            branches = []
            cvars = set()
            for _ in range(nb):
                c = self.cond()
                branches.append([c, None])
            for b in branches:
                b[1] = self.block(depth + 1, budget, rng.choice([1, 1, 2]), prefer=None)
            els = self.block(depth + 1, budget, rng.choice([1, 2])) if rng.random() < 0.6 else None
            return ["if", branches, els]
        if r < 0.42 and len(self.all) >= 2:
            k = rng.choice([2, 2, 3]) if len(self.all) >= 3 else 2
            vs = rng.sample(self.all, k)
            if rng.random() < 0.5:
                # rotation / swap
                rh = [var(v) for v in vs[1:] + vs[:1]]
                if rng.random() < 0.5:
                    rh[0] = ["add", rh[0], var(vs[0])]
            else:
                rh = [self.rhs(["poly", "poly", "choice", "draw"]) for _ in vs]
            budget[0] -= 1
            return ["simul", vs, rh]
        budget[0] -= 1
        t = self.target()
        if self.probs and rng.random() < 0.12:
            q = rng.choice(self.probs)
            return ["assign", q, self.prob_update(q)]
        if t in self.flags:
            rr = rng.random()
            if rr < 0.6:
                if self.probs and rng.random() < 0.4:
                    return ["assign", t, ["draw", "Bernoulli", [var(rng.choice(self.probs))]]]
                return ["assign", t, ["draw", "Bernoulli", [num(rng.choice(PROB_POOL))]]]
            if rr < 0.8:
                return ["assign", t, ["choice", [[num(0), fstr(rng.choice(PROB_POOL))], [num(1), None]]]]
            return ["assign", t, ["sub", num(1), var(t)]]
        if t in self.smalls:
            rr = rng.random()
            if rr < 0.35:
                return ["assign", t, self.draw(rng.choice(["Categorical", "DiscreteUniform"]), False)]
            if rr < 0.6:
                return ["assign", t, ["choice", [[num(rng.choice([0, 1, 2])), fstr(rng.choice(PROB_POOL))], [num(rng.choice([-1, 0, 3])), None]]]]
            if rr < 0.8:
                return ["assign", t, num(rng.choice([0, 1, 2]))]
            return ["assign", t, var(rng.choice(self.flags + self.smalls))]
        return ["assign", t, self.rhs()]

    def block(self, depth, budget, n, prefer=None):
        out = []
        for _ in range(n):
            if budget[0] <= 0:
                break
            out.append(self.stmt(depth, budget))
        if not out:
            budget[0] -= 1
            out.append(["assign", self.target(), self.lin_expr()])
        return out

    def program(self):
        rng = self.rng
        nf = rng.choice([1, 1, 2])
        ns = rng.choice([0, 1, 1, 2])
        nr = rng.choice([1, 2, 2, 3])
        names = ["f", "g", "h", "s", "k", "m", "x", "y", "z", "w"]
        self.flags = names[0:nf]
        self.smalls = names[3:3 + ns]
        self.reals = names[6:6 + nr]
        self.all = self.flags + self.smalls + self.reals
        self.probs = ["q"] if rng.random() < 0.3 else []
        init = []
        avail = []
        saved_all = self.all
        for v in self.all:
            self.all = avail  # initial right-hand sides may only read initialised variables
            if v in self.flags:
                rhs = num(rng.choice([0, 1])) if rng.random() < 0.6 else ["draw", "Bernoulli", [num(rng.choice(PROB_POOL))]]
            elif v in self.smalls:
                rhs = num(rng.choice([0, 1, 2])) if rng.random() < 0.6 else self.draw(rng.choice(["Categorical", "DiscreteUniform"]), False)
            else:
                r = rng.random()
                if r < 0.5 or not avail:
                    rhs = const(rng)
                elif r < 0.75:
                    rhs = self.draw(None, state_dep=bool(avail))
                elif r < 0.9:
                    rhs = self.choice()
                else:
                    rhs = self.lin_expr()
            init.append(["assign", v, rhs])
            avail = avail + [v]
        self.all = saved_all
        for q in self.probs:
            init.insert(0, ["assign", q, num(rng.choice([Fraction(1, 2), Fraction(1, 4), Fraction(3, 4), Fraction(1, 8)]))])
        if rng.random() < 0.25 and len(self.reals) >= 2:
            # simultaneous initialisation as in the documentation loops
            vs = self.reals[:2]
            pos = min(i for i, s in enumerate(init) if s[1] in vs)
            init = init[:pos] + [["simul", vs, [const(rng), const(rng)]]] + [s for s in init[pos:] if s[1] not in vs]
        # guard
        r = rng.random()
        if r < 0.3:
            guard = ["true"]
        elif r < 0.65:
            guard = ["cmp", var(self.flags[0]), "==", num(rng.choice([0, 1]))]
        elif r < 0.8 and self.smalls:
            guard = ["cmp", var(self.smalls[0]), rng.choice(["<", "<=", "==", ">"]), num(rng.choice([0, 1, 2]))]
        elif r < 0.9:
            guard = ["cmp", var(self.reals[0]), rng.choice(["<", ">"]), num(rng.choice([0, 1, 3]))]
        else:
            guard = self.cond()
        budget = [rng.choice([2, 3, 4, 5, 6, 8, 10])]
        body = self.block(0, budget, budget[0])
        return {"types": [], "init": init, "guard": guard, "body": body}


def gen_c12_program(rng, families=None):
    return C12Gen(rng, families).program()


class C05Gen(C12Gen):
    """Programs biased to the finite-type inference: guards over flags, variables assigned
    several times per iteration (intermediate versions), conditions on variables reassigned in their
    own branches (_old copies), initial values different from every assigned value, saturating
    counters, value sets that outgrow the 25-value cap or the fixed-point budget."""

    def finite_rhs(self, t):
        """right-hand side for a variable meant to stay finite; `wild` updates (counters, doubling)
        that make the value set outgrow the typer's caps are kept rare"""
        rng = self.rng
        fin = self.flags + self.smalls
        if rng.random() < (0.0 if self.simple else 0.1):
            r = rng.random()
            if r < 0.4:
                return [rng.choice(["add", "sub"]), var(t), num(rng.choice([1, 1, 2]))]   # counter: never converges
            if r < 0.6:
                return ["mul", num(rng.choice([2, Fraction(1, 2)])), var(t)]              # doubling / halving
            if r < 0.8:
                return ["add", var(rng.choice(fin)), var(rng.choice(fin))]
            return ["mul", num(3), var(rng.choice(fin))]
        if t in self.flags:
            r = rng.random()
            if r < 0.35:
                return ["draw", "Bernoulli", [num(rng.choice(PROB_POOL))]]
            if r < 0.5:
                return ["sub", num(1), var(t)]
            if r < 0.62:
                return var(rng.choice(self.flags))
            if r < 0.74:
                return ["mul", var(rng.choice(self.flags)), var(rng.choice(self.flags))]
            if r < 0.86:
                return num(rng.choice([0, 1]))
            return ["choice", [[num(rng.choice([0, 1])), fstr(rng.choice(PROB_POOL))], [num(rng.choice([0, 1])) if rng.random() < 0.7 else var(rng.choice(self.flags)), None]]]
        r = rng.random()
        if r < 0.2:
            return self.draw(rng.choice(["Categorical", "DiscreteUniform"]), False)
        if r < 0.4:
            k = rng.choice([2, 2, 3, 3, 4])
            probs = rand_probs(rng, k)
            if k >= 3 and rng.random() < 0.25:
                # an alternative with probability 0 (not the last one): written down, never taken
                i0 = rng.randrange(k - 1)
                j0 = rng.choice([x for x in range(k) if x != i0])
                probs[j0] += probs[i0]
                probs[i0] = Fraction(0)
            items = [[num(rng.choice([0, 1, 2, 3, -1, 5, Fraction(1, 2), Fraction(3, 2)])) if rng.random() < 0.7 else var(rng.choice(fin)), fstr(probs[i])] for i in range(k)]
            if rng.random() < 0.5:
                items[-1][1] = None
            return ["choice", items]
        if r < 0.55:
            return num(rng.choice([0, 1, 2, 3, 4, -1, Fraction(1, 2)]))
        if r < 0.7:
            return var(rng.choice(fin))
        if r < 0.8:
            return ["sub", num(rng.choice([1, 2, 3])), var(t)]                             # involution
        if r < 0.9:
            return ["mul", var(rng.choice(self.flags)), var(rng.choice(self.smalls if (self.simple and self.smalls) else fin))]
        return ["mul", num(-1), var(t)]                                                    # sign flip

    def fin_cond(self, depth=0):
        rng = self.rng
        fin = self.flags + self.smalls
        r = rng.random()
        if depth >= 1 or r < 0.7:
            v = rng.choice(fin)
            if len(fin) >= 2 and rng.random() < 0.15:
                # compound atoms: the conditions reducer introduces an alias _r<k> for the difference
                w = rng.choice([x for x in fin if x != v])
                if rng.random() < 0.5:
                    return ["cmp", var(v), rng.choice(["==", "<", "<=", ">"]), var(w)]
                return ["cmp", ["add", var(v), var(w)], rng.choice(["==", ">=", "<"]), num(rng.choice([1, 2]))]
            if v in self.flags and rng.random() < 0.7:
                return ["cmp", var(v), "==", num(rng.choice([0, 1]))]
            return ["cmp", var(v), rng.choice(["==", "<", ">", "<=", ">="]), num(rng.choice([0, 1, 2, 3]))]
        if r < 0.82:
            return ["and", self.fin_cond(1), self.fin_cond(1)]
        if r < 0.94:
            return ["or", self.fin_cond(1), self.fin_cond(1)]
        return ["not", self.fin_cond(1)]

    def stmt(self, depth, budget):
        rng = self.rng
        fin = self.flags + self.smalls
        r = rng.random()
        if depth < (1 if self.simple else 2) and budget[0] > 1 and r < 0.3:
            nb = rng.choice([1, 1, 2, 3])
            branches = [[self.fin_cond(), None] for _ in range(nb)]
            for b in branches:
                cv = sorted(self._cond_vars(b[0]))
                blk = []
                if cv and rng.random() < (0.6 if depth == 0 else 0.1):
                    # reassign a variable of the branch condition inside the branch
                    t = rng.choice(cv)
                    blk.append(["assign", t, self.finite_rhs(t)])
                    budget[0] -= 1
                blk += self.block(depth + 1, budget, rng.choice([1, 1, 2]))
                b[1] = blk
            els = self.block(depth + 1, budget, rng.choice([1, 2])) if rng.random() < 0.5 else None
            return ["if", branches, els]
        if r < 0.38 and len(fin) >= 2:
            vs = rng.sample(fin, 2)
            budget[0] -= 1
            if rng.random() < 0.5:
                return ["simul", vs, [var(vs[1]), var(vs[0])]]
            return ["simul", vs, [self.finite_rhs(vs[0]), self.finite_rhs(vs[1])]]
        if 0.45 <= r < 0.52 and len(self.all) >= 3 and budget[0] > 2 and depth == 0:
            # a delay line: w = x; x = y; y = <growing or random>   (failure / growth must propagate through the copies)
            a, b, c = rng.sample(self.all, 3)
            budget[0] -= 3
            src = [rng.choice(["add"]), var(c), num(1)] if rng.random() < 0.5 else self.finite_rhs(c)
            self._pending_list = [["assign", b, var(c)], ["assign", c, src]]
            return ["assign", a, var(b)]
        if r < 0.45 and self.flags and budget[0] > 1:
            # a variable leaves its value set in the middle of the iteration and is folded back: t = t + g; t = t*(2 - t)
            t = rng.choice(self.flags)
            others = [x for x in self.flags if x != t]
            budget[0] -= 2
            self._pending = ["assign", t, ["mul", var(t), ["sub", num(2), var(t)]]]
            # never t + t: doubling followed by squaring makes the value sets explode (the typer then runs for minutes)
            return ["assign", t, ["add", var(t), var(rng.choice(others)) if others else num(1)]]
        budget[0] -= 1
        t = rng.choice(self.all)
        if t in fin or (self.simple and rng.random() < 0.5):
            if t not in fin:
                t = rng.choice(fin)
            if rng.random() < 0.15 and t in self.smalls:
                # saturating counter
                return ["if", [[["cmp", var(t), "<", num(rng.choice([2, 3, 4]))], [["assign", t, ["add", var(t), num(1)]]]]], None]
            return ["assign", t, self.finite_rhs(t)]
        rr = rng.random()
        if rr < 0.35:
            return ["assign", t, num(rng.choice([0, 1, 2, 3, 5, -2, Fraction(1, 2)]))]
        if rr < 0.6:
            return ["assign", t, [rng.choice(["add", "sub", "mul"]), var(t), rng.choice([num(1), num(2), var(rng.choice(fin))])]]
        if rr < 0.75:
            return ["assign", t, var(rng.choice(fin))]
        if rr < 0.85:
            return ["assign", t, self.draw(rng.choice(["Normal", "Uniform", "DistExp", "Beta", "Gamma", "Laplace"]), False)]
        return ["assign", t, self.finite_rhs(rng.choice(fin))]

    _pending = None
    _pending_list = None

    def block(self, depth, budget, n, prefer=None):
        out = []
        for _ in range(n):
            if budget[0] <= 0:
                break
            out.append(self.stmt(depth, budget))
            if self._pending is not None:
                out.append(self._pending)
                self._pending = None
            if self._pending_list:
                out += self._pending_list
                self._pending_list = None
        if not out:
            budget[0] -= 1
            out.append(["assign", self.target(), self.lin_expr()])
        return out

    def _cond_vars(self, c):
        from .past import expr_vars
        t = c[0]
        if t == "cmp":
            return expr_vars(c[1]) | expr_vars(c[3])
        if t in ("and", "or"):
            return self._cond_vars(c[1]) | self._cond_vars(c[2])
        if t == "not":
            return self._cond_vars(c[1])
        return set()

    simple = False

    def program(self):
        rng = self.rng
        self.simple = rng.random() < 0.55
        nf = rng.choice([1, 2, 2])
        ns = rng.choice([0, 1, 1, 2])
        nr = rng.choice([0, 1, 1, 2])
        names = ["f", "g", "h", "s", "k", "m", "x", "y", "z"]
        self.flags = names[0:nf]
        self.smalls = names[3:3 + ns]
        self.reals = names[6:6 + nr]
        self.all = self.flags + self.smalls + self.reals
        init = []
        for v in self.all:
            if v in self.flags:
                rhs = num(rng.choice([0, 1])) if rng.random() < 0.7 else ["draw", "Bernoulli", [num(rng.choice(PROB_POOL))]]
            elif v in self.smalls:
                r = rng.random()
                if r < 0.5:
                    rhs = num(rng.choice([0, 1, 2]))
                elif r < 0.75:
                    rhs = num(rng.choice([5, 7, -3, 9]))      # a value no assignment produces
                else:
                    rhs = self.draw(rng.choice(["Categorical", "DiscreteUniform"]), False)
            else:
                rhs = num(rng.choice([0, 1, 7, -3, Fraction(1, 2)]))
            init.append(["assign", v, rhs])
        self.uninitialised = []
        if rng.random() < 0.12 and (self.smalls or self.reals):
            # a variable without initial value: its initial value is the symbolic constant <v>0
            v = rng.choice(self.smalls + self.reals)
            init = [st for st in init if st[1] != v]
            self.uninitialised.append(v)
        elif rng.random() < 0.15:
            # a variable initialised twice: the second assignment is the one that counts
            v = rng.choice(self.all)
            if v in self.flags:
                rhs = num(rng.choice([0, 1])) if rng.random() < 0.5 else ["sub", num(1), var(v)]
            else:
                rhs = num(rng.choice([0, 2, 4, 6, -1])) if rng.random() < 0.6 else ["add", var(v), num(rng.choice([1, 3]))]
            init.append(["assign", v, rhs])
        r = rng.random()
        if r < 0.2:
            guard = ["true"]
        elif r < 0.75:
            guard = ["cmp", var(self.flags[0]), "==", num(rng.choice([0, 1]))]
        else:
            guard = self.fin_cond()
        budget = [rng.choice([2, 3, 4, 5] if self.simple else [2, 3, 4, 5, 6, 8])]
        body = self.block(0, budget, budget[0])
        # bias: a second (and third) assignment to an already assigned variable at top level
        for _ in range(rng.choice([0, 1, 1, 2])):
            t = rng.choice(self.all)
            pos = rng.randrange(len(body) + 1)
            if t in self.reals:
                e = [rng.choice(["add", "sub"]), var(t), num(rng.choice([1, 2]))] if rng.random() < 0.5 else num(rng.choice([0, 1, 3, 4]))
            else:
                e = self.finite_rhs(t) if rng.random() < 0.6 else num(rng.choice([0, 1]) if t in self.flags else rng.choice([0, 1, 3, 4]))
            body.insert(pos, ["assign", t, e])
        # a variable that occurs in a condition but is never assigned in the loop is a constant; Polar
        # folds it into the condition and then refuses the program (C18 territory) — avoid that shape
        from .past import assigned_vars
        av = assigned_vars(body)
        cvs = set(self._cond_vars(guard))
        stack = list(body)
        while stack:
            st = stack.pop()
            if st[0] == "if":
                for c, br in st[1]:
                    cvs |= self._cond_vars(c)
                    stack += br
                if st[2] is not None:
                    stack += st[2]
        for v in sorted(cvs - av):
            body.append(["assign", v, self.finite_rhs(v)])
        types = []
        if rng.random() < 0.2:
            v = rng.choice(self.flags)
            if self._only_01(v, init, body):
                types.append([v, "Finite", ["0", "1"]])
        return {"types": types, "init": init, "guard": guard, "body": body, "uninitialised": list(self.uninitialised)}

    def _only_01(self, v, init, body):
        """declare a type only where it is certainly true: every assignment to v is a Bernoulli draw or 0/1 constant"""
        ok = [True]

        def visit(stmts):
            for s in stmts:
                if s[0] == "assign" and s[1] == v:
                    r = s[2]
                    if r[0] == "draw" and r[1] == "Bernoulli":
                        continue
                    if r[0] == "num" and r[1] in ("0", "1"):
                        continue
                    ok[0] = False
                elif s[0] == "simul" and v in s[1]:
                    ok[0] = False
                elif s[0] == "if":
                    for _, br in s[1]:
                        visit(br)
                    if s[2] is not None:
                        visit(s[2])

        visit(init)
        visit(body)
        return ok[0]


def symbolise(prog, rng, sym="p"):
    """replace some constant probabilities by the symbolic constant `sym`; returns the number of sites"""
    n = [0]

    def visit(stmts):
        for s in stmts:
            if s[0] == "assign":
                r = s[2]
                if r[0] == "draw" and r[1] == "Bernoulli" and r[2][0][0] == "num" and rng.random() < 0.6:
                    r[2][0] = ["var", sym]
                    n[0] += 1
                elif r[0] == "choice" and len(r[1]) == 2 and rng.random() < 0.6:
                    r[1][0][1] = sym
                    r[1][1][1] = None
                    n[0] += 1
            elif s[0] == "if":
                for _, br in s[1]:
                    visit(br)
                if s[2] is not None:
                    visit(s[2])

    visit(prog["init"])
    visit(prog["body"])
    return n[0]


def delay_line_c05(rng, depth):
    """w_1 = w_2; w_2 = w_3; ...; w_k = <growing>: failure of the growing source has to travel `depth` loop-carried
    copies backwards before it reaches w_1"""
    names = ["w", "x", "y", "u", "v", "a"][: depth + 1]
    init = [["assign", n, num(0)] for n in names] + [["assign", "z", num(0)]]
    body = [["assign", names[i], var(names[i + 1])] for i in range(depth)]
    src = names[-1]
    r = rng.random()
    if r < 0.4:
        body.append(["assign", src, ["add", var(src), num(1)]])
    elif r < 0.8:
        body.append(["assign", src, ["choice", [[["add", var(src), num(1)], "1/2"], [["add", var(src), num(2)], None]]]])
    else:
        body.append(["assign", src, ["mul", num(2), ["add", var(src), num(1)]]])
    body.append(["assign", "z", ["add", var("z"), ["pow", var(names[0]), 2]]])
    guard = ["true"]
    if rng.random() < 0.25:
        # the delay line under a loop guard: no assignment is unconditional any more
        body.insert(rng.choice([0, len(body)]), ["assign", "f", ["draw", "Bernoulli", [num(Fraction(1, 2))]]])
        init.append(["assign", "f", num(1)])
        guard = ["cmp", var("f"), "==", num(1)]
    elif rng.random() < 0.4:
        body.insert(0, ["assign", "f", ["draw", "Bernoulli", [num(Fraction(1, 2))]]])
        init.append(["assign", "f", num(0)])
    return {"types": [], "init": init, "guard": guard, "body": body}


def guard_to_if(prog, rng):
    """the same assignments, but the loop guard becomes an ordinary branch condition (the body is not a single `if`, so
    Polar does not merge the condition back into the guard)"""
    import copy as _copy
    if prog["guard"] == ["true"]:
        return None
    p = _copy.deepcopy(prog)
    extra = ["assign", "h", ["draw", "Bernoulli", [num(Fraction(1, 2))]]]
    p["init"] = p["init"] + [["assign", "h", num(0)]]
    p["body"] = [["if", [[p["guard"], p["body"]]], None], extra]
    p["guard"] = ["true"]
    p["types"] = []
    return p


def is_tame(prog, iterations=8, bound=10**5):
    """False if some plain execution of the program makes a value explode (repeated squaring of a growing value):
    Polar's fixed-point typer then computes with numbers of astronomically many digits for minutes"""
    from . import refinterp
    for q in (0.5, 0.9, 0.1):
        g = refinterp.run(prog, iterations, 1)
        try:
            req = next(g)
            while True:
                req = g.send(q)
        except StopIteration as st:
            for run in st.value:
                for state in run:
                    for v in state.values():
                        if abs(v) > bound:
                            return False
        except Exception:  # noqa
            continue
    return True


def gen_c05_program(rng):
    for _ in range(6):
        prog = C05Gen(rng).program()
        if is_tame(prog):
            return prog
    return prog


def sibling(prog, rng, attempts=4):
    """A variant of `prog` with the same variable names, conditions and statement structure but other values /
    distribution parameters at one to three sites: the shape for which state keyed by a name, a condition or a
    distribution family only (and kept between the programs of one process) is wrong.  None if no site exists."""
    import copy as _copy

    def sites_of(p):
        out = []

        def visit(stmts):
            for s in stmts:
                if s[0] == "assign":
                    r = s[2]
                    if r[0] == "choice":
                        nums = [it[0] for it in r[1] if it[0][0] == "num"]
                        if nums:
                            out.append(("choice", r, nums))
                    elif r[0] == "draw" and all(a[0] == "num" for a in r[2][-1:]):
                        out.append(("draw", r, None))
                elif s[0] == "if":
                    for _, br in s[1]:
                        visit(br)
                    if s[2] is not None:
                        visit(s[2])

        visit(p["body"])
        return out

    for _ in range(attempts):
        p = _copy.deepcopy(prog)
        p["types"] = []
        sites = sites_of(p)
        if not sites:
            return None
        for kind, r, nums in rng.sample(sites, min(len(sites), rng.choice([1, 1, 2, 3]))):
            if kind == "choice":
                present = {n[1] for n in nums}
                node = rng.choice(nums)
                for d in rng.sample([1, 2, -1, 3], 4):
                    new = num(Fraction(node[1]) + d)
                    if new[1] not in present:
                        node[1] = new[1]
                        break
            else:
                fam, args = r[1], r[2]
                if fam == "Bernoulli":
                    if rng.random() < 0.5:
                        r[1], r[2] = "DiscreteUniform", [num(0), num(2)]
                    else:
                        args[0] = num(rng.choice([q for q in PROB_POOL if num(q) != args[0]]))
                elif fam == "Categorical":
                    if len({a[1] for a in args}) > 1:
                        args.append(args.pop(0))
                    else:
                        args.append(num(0))
                        args[0], args[-1] = num(Fraction(args[0][1]) / 2), num(Fraction(args[0][1]) / 2)
                elif fam == "Beta":
                    args[0] = num(Fraction(args[0][1]) + 1)
                elif fam == "Gamma":
                    args[0] = num(Fraction(args[0][1]) + 1)
                else:
                    # DiscreteUniform / Uniform / TruncNormal: upper bound; Normal / Laplace: scale; DistExp: rate
                    args[-1] = num(Fraction(args[-1][1]) + 1)
        if p != prog and is_tame(p):
            return p
    return None


def functional_branch_program(rng):
    """Sin / Cos / Exp of a drawn variable (or of a constant) assigned inside branches: the condition of such an assignment
    has to survive both representations of conditions"""
    d = rng.choice(["Normal(0, 1)", "Uniform(0, 1)", "Uniform(-1, 1)", "Normal(1, 1/4)"])
    fn = lambda: rng.choice(["Sin", "Cos", "Exp", "Sin", "Cos"])
    arg = lambda: "u" if rng.random() < 0.8 else rng.choice(["1", "1/2", "2"])
    p1, p2 = fstr(rng.choice(PROB_POOL)), fstr(rng.choice(PROB_POOL))
    init = ["x = 0", f"s = {rng.choice([0, 1, 2])}", "c = 0", "u = 0"]
    body = [f"c = Bernoulli({p1})", f"u = {d}"]
    shape = rng.choice(["if", "if-else", "nested", "elif", "if"])
    f1, f2 = fn(), fn()
    if f1 == "Exp" or f2 == "Exp":
        f1 = f2 = "Exp" if rng.random() < 0.5 else rng.choice(["Sin", "Cos"])     # Polar does not mix exponential and trigonometric moments
    if shape == "if":
        body += [f"if c == {rng.choice([0, 1])}:", f"    s = {f1}({arg()})"] + (["    x = x + 1"] if rng.random() < 0.5 else []) + ["end"]
    elif shape == "if-else":
        body += ["if c == 1:", f"    s = {f1}({arg()})", "else:", f"    s = {f2}({arg()})" if rng.random() < 0.5 else "    s = s/2", "end"]
    elif shape == "elif":
        init.append("d = 0")
        body.insert(1, f"d = Bernoulli({p2})")
        body += ["if c == 1:", f"    s = {f1}({arg()})", "elif d == 1:", f"    s = {f2}({arg()})", "end"]
    else:
        init.append("d = 0")
        body.insert(1, f"d = Bernoulli({p2})")
        body += ["if c == 1:", "    if d == 1:", f"        s = {f1}({arg()})", "    else:", f"        s = {f2}({arg()})" if rng.random() < 0.6 else "        x = x + 2",
                 "    end", "end"]
    tail = rng.choice(["x = x + s", "x = x + s", "s = s/2", "x = x + c*s", ""])
    if tail:
        body.append(tail)
    rng.shuffle(init)
    text = "\n".join(init + ["while true:"] + ["    " + l for l in body] + ["end"]) + "\n"
    goals = ["s"] + rng.sample(["x", "s**2", "c*s", "x"], 2)
    return text, list(dict.fromkeys(goals))


def late_init_c05(rng):
    """a variable WITHOUT initial assignment that is read (in a condition, sometimes also on a right side) before the loop
    body assigns it for the first time: in the first iteration the read sees the arbitrary initial value, so the variable
    must not get a finite type made of the assigned values only"""
    v = rng.choice(["x", "s", "k"])
    fin = rng.choice([["draw", "Bernoulli", [num(rng.choice(PROB_POOL))]],
                      ["draw", "DiscreteUniform", [num(0), num(rng.choice([1, 2, 3]))]],
                      ["choice", [[num(rng.choice([0, 1])), "1/2"], [num(rng.choice([2, 3])), None]]],
                      ["draw", "Categorical", [num(Fraction(1, 2)), num(Fraction(1, 4)), num(Fraction(1, 4))]]])
    cond = ["cmp", var(v), rng.choice([">=", ">", "==", "<=", "<"]), num(rng.choice([0, 1, 1, 2]))]
    init = [["assign", "y", num(0)], ["assign", "f", num(rng.choice([0, 1]))]]
    upd = ["assign", "y", ["add", var("y"), num(rng.choice([1, 2]))]]
    shape = rng.random()
    if shape < 0.5:
        first = ["if", [[cond, [upd]]], None]
    elif shape < 0.75:
        first = ["if", [[cond, [upd]]], [["assign", "y", ["sub", var("y"), num(1)]]]]
    else:
        first = ["if", [[["cmp", var("f"), "==", num(1)], [["assign", "y", num(0)]]], [cond, [upd]]], None]
    body = [first, ["assign", "f", ["draw", "Bernoulli", [num(Fraction(1, 2))]]], ["assign", v, fin]]
    if rng.random() < 0.3:
        body.append(["assign", "y", ["add", var("y"), var(v)]])       # read again, after the assignment
    if rng.random() < 0.3:
        body.insert(1, ["assign", "z", ["add", var("z"), var(v)]])    # also read on a right side before the assignment
        init.append(["assign", "z", num(0)])
    guard = ["true"] if rng.random() < 0.7 else ["cmp", var("f"), "==", num(rng.choice([0, 1]))]
    return {"types": [], "init": init, "guard": guard, "body": body, "uninitialised": [v]}


def double_init_constant_c05(rng):
    """a variable that the loop body only reads (a constant of the loop) but that the initial part assigns twice: the
    value the body sees is the one of the last initial assignment"""
    c = rng.choice(["c", "k", "s"])
    first = num(rng.choice([3, 5, -2, 7]))
    second = rng.choice([["draw", "Bernoulli", [num(Fraction(1, 2))]],
                         ["draw", "DiscreteUniform", [num(0), num(2)]],
                         num(rng.choice([0, 1, 4])),
                         ["add", var(c), num(1)],
                         ["choice", [[num(1), "1/2"], [num(2), None]]]])
    pair = [["assign", c, first], ["assign", c, second]]
    if rng.random() < 0.4:
        pair.reverse()
        if pair[0][2][0] == "add":
            pair[0][2] = num(6)
    init = pair + [["assign", "x", num(0)], ["assign", "f", num(rng.choice([0, 1]))]]
    use = rng.choice([["assign", "x", var(c)],
                      ["if", [[["cmp", var("f"), "==", num(1)], [["assign", "x", var(c)]]]], None],
                      ["assign", "x", ["mul", var(c), var("f")]],
                      ["assign", "x", ["sub", var(c), var("f")]]])
    body = [["assign", "f", ["draw", "Bernoulli", [num(Fraction(1, 2))]]], use]
    if rng.random() < 0.5:
        body.reverse()
    guard = ["true"] if rng.random() < 0.7 else ["cmp", var("f"), "==", num(rng.choice([0, 1]))]
    return {"types": [], "init": init, "guard": guard, "body": body, "uninitialised": []}

