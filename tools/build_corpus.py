#!/venv/bin/python
"""Measures which (file, goal) pairs of the repo's own benchmark corpus are analysable quickly and writes
sim/corpus_data.json (committed; regenerate only when the corpus changes)."""
import sys, os, time, glob, json
sys.path.insert(0, '/repo'); sys.path.insert(0, '/verif')
from sim import world
world.preload()

def probe(path):
    from inputparser import parse_program
    from program import normalize_program
    from recurrences import RecBuilder
    from recurrences.solver import RecurrenceSolver
    from symengine.lib.symengine_wrapper import sympify
    t = time.time()
    try:
        p = normalize_program(parse_program(path))
    except Exception as e:
        return {"refused": type(e).__name__, "t": time.time() - t}
    tn = time.time() - t
    vs = sorted(map(str, p.original_variables))
    rb = RecBuilder(p)
    goals = {}
    import signal
    class TO(Exception): pass
    def h(*a): raise TO()
    signal.signal(signal.SIGALRM, h)
    cands = vs[:4] + [f"{v}**2" for v in vs[:3]] + ([f"{vs[0]}*{vs[1]}"] if len(vs) > 1 else [])
    for g in cands:
        t1 = time.time()
        try:
            signal.setitimer(signal.ITIMER_REAL, 3)
            r = rb.get_recurrences(sympify(g)); s = RecurrenceSolver(r); s.get(sympify(g))
            signal.setitimer(signal.ITIMER_REAL, 0)
            goals[g] = round(time.time() - t1, 3)
        except TO:
            goals[g] = None
            break
        except Exception as e:
            signal.setitimer(signal.ITIMER_REAL, 0)
            goals[g] = "E:" + type(e).__name__
    return {"norm_t": round(tn, 3), "vars": vs, "goals": goals, "probabilistic": bool(p.is_probabilistic), "symbols": sorted(map(str, p.symbols))}

files = sorted(glob.glob('/repo/tests/benchmarks/*.prob') + glob.glob('/repo/documentation/loops/*.prob') + glob.glob('/repo/benchmarks/*/*') + glob.glob('/repo/benchmarks/*.prob'))
out = {"ok": {}, "refused": {}}
for f in files:
    if os.path.isdir(f): continue
    rel = f.replace('/repo/', '')
    r = world.fork_call(probe, f, 25)
    if r.get("status") in ("child_timeout", "child_died"):
        print(rel, r["status"]); continue
    if "refused" in r:
        if r["t"] < 2: out["refused"][rel] = r["refused"]
        print(rel, "refused", r["refused"]); continue
    fast = {g: t for g, t in r["goals"].items() if isinstance(t, float) and t < 1.2}
    errs = {g: t for g, t in r["goals"].items() if isinstance(t, str)}
    if r["norm_t"] < 0.5 and fast:
        out["ok"][rel] = {"goals": sorted(fast), "error_goals": sorted(errs), "probabilistic": r["probabilistic"], "symbols": r["symbols"], "vars": r["vars"]}
    print(rel, r["norm_t"], r["goals"])
json.dump(out, open('/verif/sim/corpus_data.json', 'w'), indent=1, sort_keys=True)
print(len(out["ok"]), "files ok;", len(out["refused"]), "refused")
