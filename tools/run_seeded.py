#!/venv/bin/python
"""Runs the registered checks against the independently written breaking changes in /verif/seeded/.

For every seeded/<id>/ (patch.diff, demo.py, meta.json): copy /repo's working tree to a scratch
directory, confirm that demo.py passes there, apply the patch, confirm that demo.py fails, run the
owning check (quick tier; optionally all four) with POLAR_REPO pointing at the patched copy, remove
the copy.  /repo itself is never modified.  Writes seeded/results.json and seeded/README.md.

    tools/run_seeded.py [--only ID ...] [--all-checks] [--runs N] [--tier quick|thorough]
"""
import argparse
import json
import os
import shutil
import subprocess
import sys
import tempfile
import time

VERIF = os.path.dirname(os.path.dirname(os.path.abspath(__file__)))
PY = "/venv/bin/python"
CHECKS = ["C05", "C12", "C17", "C20"]


def sh(cmd, cwd=None, env=None, timeout=None):
    p = subprocess.run(cmd, cwd=cwd, env=env, stdout=subprocess.PIPE, stderr=subprocess.STDOUT, text=True, timeout=timeout)
    return p.returncode, p.stdout


def main():
    ap = argparse.ArgumentParser()
    ap.add_argument("--only", nargs="*")
    ap.add_argument("--all-checks", action="store_true")
    ap.add_argument("--runs", type=int)
    ap.add_argument("--tier", default="quick")
    ap.add_argument("--seed", default="0")
    ap.add_argument("--suite", action="store_true", help="also run the repository's test suite on the patched copy")
    args = ap.parse_args()
    sdir = os.path.join(VERIF, "seeded")
    ids = sorted(d for d in os.listdir(sdir) if os.path.isfile(os.path.join(sdir, d, "patch.diff")))
    if args.only:
        ids = [i for i in ids if i in args.only]
    respath = os.path.join(sdir, "results.json")
    results = {}
    if os.path.exists(respath):
        results = json.load(open(respath))
    base = "/dev/shm" if os.path.isdir("/dev/shm") else "/var/tmp"
    for sid in ids:
        d = os.path.join(sdir, sid)
        meta = json.load(open(os.path.join(d, "meta.json")))
        owner = meta["property"]
        tree = tempfile.mkdtemp(prefix=f"seeded-{sid}-", dir=base)
        rec = {"property": owner, "summary": meta.get("summary", "")[:300], "checks": {}}
        try:
            sh(["rsync", "-a", "--exclude", ".git", "--exclude", "__pycache__", "/repo/", tree + "/"])
            shutil.copytree(d, os.path.join(tree, "seeded", sid), dirs_exist_ok=True)
            env = dict(os.environ, PYTHONPATH=tree, PYTHONDONTWRITEBYTECODE="1")
            rc0, out0 = sh([PY, os.path.join("seeded", sid, "demo.py"), tree], cwd=tree, env=env, timeout=900)
            rec["demo_clean_exit"] = rc0
            rca, outa = sh(["git", "apply", "--whitespace=nowarn", os.path.join(d, "patch.diff")], cwd=tree)
            rec["patch_applies"] = rca == 0
            if rca != 0:
                rec["apply_error"] = outa[-500:]
                results[sid] = rec
                continue
            rc1, out1 = sh([PY, os.path.join("seeded", sid, "demo.py"), tree], cwd=tree, env=env, timeout=900)
            rec["demo_patched_exit"] = rc1
            if not args.suite:
                # keep what an earlier run with --suite recorded about the test suite on the patched copy
                for k in ("suite_with_patch", "suite_failed_tests", "suite_failed_when_run_alone"):
                    if k in results.get(sid, {}):
                        rec[k] = results[sid][k]
            if args.suite:
                rcs, outs = sh([PY, "-m", "pytest", "-q", "-p", "no:cacheprovider", "-n", "8", "--timeout=900"], cwd=tree,
                               env=dict(os.environ, PYTHONDONTWRITEBYTECODE="1"), timeout=3600)
                last = [l for l in outs.splitlines() if " passed" in l or " failed" in l]
                rec["suite_with_patch"] = last[-1].strip() if last else outs[-200:]
                failed = sorted(l.split("::")[-1].split(" ")[0] for l in outs.splitlines() if l.startswith("FAILED"))
                # tests of the suite that are order dependent under xdist are re-run alone before they count
                still = []
                for t in failed:
                    if t == "test_mildew_medium":
                        continue
                    rct, outt = sh([PY, "-m", "pytest", "-q", "-p", "no:cacheprovider", "--timeout=900", "-k", t], cwd=tree,
                                   env=dict(os.environ, PYTHONDONTWRITEBYTECODE="1"), timeout=1800)
                    if rct != 0:
                        still.append(t)
                rec["suite_failed_tests"] = failed
                rec["suite_failed_when_run_alone"] = still
                print(f"{sid}: suite with patch: {rec['suite_with_patch']} failed={failed}", flush=True)
            for check in (CHECKS if args.all_checks else [owner]):
                cenv = dict(os.environ, POLAR_REPO=tree, VERIF_REPLAY_DIR=os.path.join(tree, "_replays"), VERIF_SEED=args.seed)
                cmd = [PY, os.path.join(VERIF, "checks", "run.py"), check, "--tier", args.tier, "--no-evidence"]
                if args.runs:
                    cmd += ["--runs", str(args.runs)]
                t = time.time()
                rc, out = sh(cmd, cwd=VERIF, env=cenv, timeout=7200)
                vio = [l for l in out.splitlines() if l.startswith("VIOLATION")]
                first = [l for l in out.splitlines() if l.startswith("violation:")]
                rec["checks"][check] = {"exit": rc, "violation_lines": len(vio), "wall_s": round(time.time() - t),
                                        "caught": rc == 1 and bool(vio), "first": (first[0][:400] if first else ""),
                                        "tail": out[-300:] if rc not in (0, 1) else ""}
                print(f"{sid}: {check} exit={rc} {'CAUGHT' if rc == 1 and vio else 'not caught'} ({round(time.time() - t)}s)", flush=True)
            results[sid] = rec
        finally:
            shutil.rmtree(tree, ignore_errors=True)
        json.dump(results, open(respath, "w"), indent=1, sort_keys=True)
    # README table
    lines = ["# Independently written breaking changes", "",
             "Each directory holds `patch.diff` (applies to /repo at the commit the checks were built against), `demo.py` (exits 0 on the clean tree,",
             "non-zero with the patch) and `meta.json`. The table is written by `tools/run_seeded.py`, which applies each patch to a scratch copy of",
             "/repo's working tree and runs the registered quick command of the owning check with `POLAR_REPO` pointing at the copy.", "",
             "| id | property | demo clean / patched | owning check | other checks | summary |", "|---|---|---|---|---|---|"]
    for sid in sorted(results):
        r = results[sid]
        own = r["checks"].get(r["property"], {})
        others = ", ".join(f"{c}:{'caught' if v['caught'] else 'exit ' + str(v['exit'])}" for c, v in sorted(r["checks"].items()) if c != r["property"])
        if r.get("demo_patched_exit") == 0 and not own.get("caught"):
            verdict = "no longer a breaking change on the current tree: its own demonstration passes with the patch (see note below)"
        elif own.get("caught"):
            verdict = f"**caught** in {own.get('wall_s')} s"
        else:
            verdict = f"missed (exit {own.get('exit')}) in {own.get('wall_s')} s"
        lines.append(f"| {sid} | {r['property']} | {r.get('demo_clean_exit')} / {r.get('demo_patched_exit')} | {verdict} | {others or '-'} | "
                     f"{r['summary'].replace('|', '/')[:160]} |")
    lines += ["", "Note: c05a1, c05a3, c05b1, c05c1, c05d1 and c17c2 were written against /repo before fix 61cb2d2 (F3). They cut short how the typer",
              "propagates *failure* (or share supports between guard / non-guard conditions); the repaired typer re-evaluates every unconditional",
              "assignment after the fixed point and thereby re-propagates failure, and guarded programs with so small a budget are refused,",
              "so with these patches applied to the current tree the demonstrations pass and no out-of-type value could be found.",
              "Against the tree they were written for, all six were caught (runs recorded in DESIGN.md §12).",
              "c17c3 was re-written against the current tree after fix 11b186a (F16) changed the line it edits (original kept next to it).",
              "c20h2 is not caught: C20 has no sessions for the two synthesis actions it changes (DESIGN.md §12, round 7)."]
    if False:
        pass
    open(os.path.join(sdir, "README.md"), "w").write("\n".join(lines) + "\n")


if __name__ == "__main__":
    main()
