#!/usr/bin/env python3
"""Regenerates /verif/MANIFEST.json (single source of truth for the interface)."""
import json, os
V = os.path.dirname(os.path.dirname(os.path.abspath(__file__)))
NA = {
"C01":"pure function (program, monomial) -> formula; the oracle is an expectation over all resolutions (exhaustive enumeration/integration); no schedule, history or fault occurs in it",
"C02":"relation between two distributions of a pure transformation; nothing to schedule or inject; coupling sample paths would encode draw-order identity",
"C03":"pure algebra plus a one-step expectation identity; no schedule, clock, history or fault",
"C04":"pure function of a matrix and vector; no schedule, clock, history or fault",
"C06":"pure algebra on closed forms; no schedule, clock, history or fault",
"C07":"pure algebra (ideal membership); no schedule, clock, history or fault",
"C08":"pure formulas against defining integrals (the sampler side of the families is exercised by C12)",
"C09":"pure limit / conditional-expectation computation; no schedule, clock, history or fault",
"C10":"pure calculus on closed forms; no schedule, clock, history or fault",
"C11":"pure conversion formulas; no schedule, clock, history or fault",
"C13":"pure transforms of distributions; no schedule, clock, history or fault",
"C14":"pure synthesis output against the loop's expectations; no schedule, clock, history or fault",
"C15":"pure function of the BIF text and query; its one random seam (name de-duplication) is not in the statement and is exercised inside C20 histories",
"C16":"pure number theory; no schedule, clock, history or fault",
"C18":"coverage of an input class; 'never loops forever' is about inputs, not schedules",
"C19":"metamorphic relation on input texts; no schedule, clock, history or fault",
}
PENDING = "check under construction (DESIGN.md §3/§4); will be claimed once its simulator is committed"
CLAIMED = {
"C12": dict(
  engine="scripted-rng-simulator",
  technique="deterministic simulation: Polar's real simulator and samplers run under a scripted RNG seam (random.*, scipy rvs, numpy.random); seeded search over resolution paths (uniform / coverage / adversarial / boundary-seeking quantiles); lock-step refinement against a reference interpreter, programs alone and in sequences within one interpreter",
  level=dict(category="exploration", design_ref="DESIGN.md §4.1-4.2, Corrections 1-3, 14-15, 22, 28, 30",
    text="Seeded search over generated programs (all constructs, all ten families, state-dependent parameters and probabilities, nested if/elif/else, guards that exit) x scripted resolution paths. Every random request of the real Simulator, Assignment.evaluate, Condition.evaluate and the ten samplers is resolved at a scheduler-chosen quantile of its own law; the reference interpreter resolves its own law at the same quantile (or the upper quantile when the implementation uses the draw antithetically), and all iteration-boundary states (including the stuttering states after guard exit), goal columns and reported means (Simulator API and SimulationAction end to end) must agree; 20 % of the cases simulate 2-4 programs (often a program and a sibling with the same names but other values) one after the other in one interpreter. Samplers are additionally compared as quantile functions on a grid and against get_support / is_discrete / get_moment. Sampling, not enumeration: a clean batch is evidence, not proof."),
  note="Trusted: sim/refinterp.py (reference semantics, ~300 lines), sim/laws.py (scipy.stats used as a math library for cdf/ppf/isf/moment). Branch decisions closer than 1e-11 relative are discarded as inconclusive; runs in which randomness is drawn past the seam are inconclusive. Assumes random requests are issued in statement execution order, one per executed probabilistic statement, and that finite choices are requested as finite laws."),
"C05": dict(
  engine="scripted-rng-simulator",
  technique="deterministic simulation: executions of the normalised program by Polar's own evaluator under a scripted RNG seam, seeded adversarial/coverage resolution schedules far past guard exit; state invariant value-in-type monitored after every assignment; independent exact evaluator confirms",
  level=dict(category="exploration", design_ref="DESIGN.md §4.3, Corrections 22, 25, 27",
    text="Seeded search over generated programs (biased to guards over flags, multiply-assigned variables, _old copies, saturating counters, value sets outgrowing the typer's caps) x type_fp_iterations swarm x resolution schedules. The real parser, normaliser and FiniteFixedPointTyper produce the IR and the types; the IR is executed for 3-12 iterations by Assignment.evaluate / Condition.evaluate under the seam and `value in inferred type` is checked after every single assignment, including all iterations after the (collapsed) loop guard is false; for variables without initial assignment every read before the first assignment is checked as well. Independently, the reference interpreter runs the SOURCE program on paths of its own and the values of the original variables at every iteration boundary must lie in the inferred types (catches normalisation passes that change the program before it is typed). A violation is reported only when an independent exact-rational evaluator of the same IR reaches the same value. Known finding F13 (a variable without initial assignment keeps its symbolic initial value while the guard is false) is matched by signature and printed as KNOWN-FINDING; the consequence clause is checked by two further oracles (powers and comparisons rewritten through the value set agree with the originals on every value of the set). Sampling, not enumeration."),
  note="Trusted: sim/c05.py ExactIR (reads IR object fields, exact rationals), sim/refinterp.py for the source-level guard, symengine substitution as arithmetic library. User-declared types are taken as given. The IR is given the sequential guarded-assignment semantics its printed form denotes."),
"C20": dict(
  engine="session-simulator",
  technique="deterministic simulation: seeded histories of interleaved analysis sessions (library steps, Action objects, the real polar.main) in one interpreter with injected perturbations of process-global state and a per-world PYTHONHASHSEED; history checked op by op against the same analysis alone in a pristine interpreter",
  level=dict(category="exploration", design_ref="DESIGN.md §3.1-3.3, Corrections 17-18, 22-23, 29",
    text="Seeded search over histories: 2-7 sessions over the repo's own benchmark corpus and generated programs (incl. variables named like generated-name prefixes), steps interleaved by a seeded scheduler, perturbations at step boundaries (forward jumps of the unique-name counter, cache flushes / tiny cache sizes, gc, RNG churn, settings left behind by other users, natural errors (refusals of every pipeline stage), abandoned and repeated analyses, permuted goals, sibling programs, geometric loops whose invariant ideal needs a non-trivial exponent lattice), each world under its own hash seed and the interpreter's default knobs; a step that changes an interpreter-global knob (recursion limit, integer-text limit, working directory) is followed by canary analyses whose outcome depends on it. Oracle: every op's canonical result (closed-form values at n=0..7,12 at two generic parameter points, is_exact, inferred types as value sets, invariant ideals, refusal types) equals that of the same analysis run alone in a freshly forked pristine interpreter under PYTHONHASHSEED=0. Sampling, not enumeration; a defect identical in every history is invisible by construction."),
  note="Trusted: sim/canon.py (value comparison), the pristine-template fork (parent never analyses anything), Polar itself as its own reference. A session's option vector is re-applied before each of its steps. Step wall-clock timeouts are inconclusive."),
"C17": dict(
  engine="session-simulator",
  technique="deterministic simulation: the same seeded history of analyses (1-4 programs, sequential or interleaved steps) executed in two pristine interpreters, under a swarm-drawn option vector applied through the real global settings seam and under the default vector; goal-by-goal comparison",
  level=dict(category="exploration", design_ref="DESIGN.md §3.4, Corrections 10, 13, 16, 22, 24",
    text="Seeded swarm over option vectors (transform_categoricals x cond2arithm x type_fp_iterations x solver dispatch/force_cyclic x explicit types equal to the inferred ones with inference disabled x numeric_roots x numeric_croots x numeric_eps) and over programs that make them bite (the repo's benchmarks; generated finite-state programs with categoricals, conditions and multiply-assigned variables; top-level 3-4-way categoricals; modular counters analysable with declared types only; linear systems with complex / irrational / zero / repeated / cubic characteristic roots, accumulators and counters; delay lines; Sin/Cos/Exp assigned inside branches; sibling programs). 12 % of the cases pass the options as flags to the real polar.main() instead. A history of 1-4 analyses is executed twice in pristine forked interpreters with the same schedule - under the vector and under the default vector - so that a difference is an effect of the options alone, including effects that need an earlier analysis in the same process. Oracle: whenever a goal succeeds on both sides, representation/strategy vectors must give exactly equal values at n=0..7,12 (two generic parameter points); numeric vectors may differ only when flagged rounded, and under numeric_roots every growth base of the exact closed form must have an approximation within 2*numeric_eps (eps down to 1e-30) in the rounded one. Differential comparison by sampling: a defect common to all option vectors is invisible."),
  note="Trusted: sim/canon.py, Polar under the default vector as reference. trivial_guard and exact_func_moments are excluded from the C17 oracle. One side refusing or timing out is not a violation; closed forms over different auxiliary symbols (_prob<k>) are inconclusive."),
}
checks = []
for pid, c in sorted(CLAIMED.items()):
    checks.append({
      "property_id": pid,
      "quick_cmd": f"/venv/bin/python checks/run.py {pid} --tier quick",
      "thorough_cmd": f"/venv/bin/python checks/run.py {pid} --tier thorough",
      "evidence_file": f"/verif/evidence/{pid}.json",
      "replay_cmd_template": f"/venv/bin/python checks/run.py {pid} --replay {{path}}",
      "engine": c["engine"],
      "level_claimed": c["level"],
      "level_note": c["note"],
      "technique": c["technique"],
    })
na = dict(NA)
for pid in ("C05","C12","C17","C20"):
    if pid not in CLAIMED:
        na[pid] = PENDING
m = {
 "version": 1,
 "setup_cmd": "/venv/bin/python checks/run.py setup",
 "hooks": {"guard": "POLAR_VERIF",
   "enable": "no source hooks exist: every seam (random.*, scipy rvs, settings, unique-name counter, lru_caches) is reached by patching module/class attributes from the harness; POLAR_VERIF is reserved and unused",
   "baseline_off_cmd": "cd /repo && /venv/bin/python -m pytest -ra -q -p no:cacheprovider --timeout=900 --continue-on-collection-errors",
   "source_commits": [], "add_only": True},
 "engines": [
   {"name": "scripted-rng-simulator", "path": "sim/rngseam.py sim/laws.py sim/sched.py sim/refinterp.py sim/c12.py", "serves_properties": ["C12","C05"],
    "kind_free_text": "deterministic simulation of Polar's own randomness: patched random/scipy entry points, seeded scheduler of resolutions, reference interpreter as oracle"},
   {"name": "session-simulator", "path": "sim/sessions.py sim/world.py sim/seams.py sim/canon.py sim/refserver.py sim/check_c20.py", "serves_properties": ["C20","C17"],
    "kind_free_text": "deterministic simulation of one interpreter hosting many analyses: seeded scheduler over API steps, seams over settings / name counter / lru_caches / gc / RNG / hash seed, pristine forked reference worlds"},
   {"name": "orchestrator", "path": "checks/run.py sim/orch.py sim/worker.py", "serves_properties": ["C05","C12","C17","C20"],
    "kind_free_text": "derives run seeds from VERIF_SEED, one fresh interpreter per batch/world with chosen PYTHONHASHSEED, shrinks and replays violations, writes evidence"},
 ],
 "checks": checks,
 "notes": "Technique family: deterministic simulation with fault injection. Fix commits in /repo: 7394bc5 (F2 TruncNormal sampler), 7b3b763 (F1 shared cli goals), f63cc8c (F5 exact_func_moments class flag), d37bec9 (F6 alias/unique name collision), c39653f (F7 AcyclicSolver validity offsets), f6eceea (F8 CyclicSolver zero roots), 240328d (F4 numeric complex roots), 195d71d (F10 typer and repeated initial assignments), f9d8be5 (F11 simulated tail probabilities at equality), 4602b08 (F12 sensitivity goal order), 61cb2d2 (F3 types after guard exit), ca9fcee (F14 exponent lattice of rational bases), 0f5c335 (F15 conditional functional assignments), 11b186a (F16 implicit last probability of a choice), 9e9ff45 (F17 loop constants initialised twice). Open known findings: F13 (C05, variables without initial value), F9 (C20). See DESIGN.md and known_findings.json.",
 "not_applicable": [{"property_id": k, "reason": v} for k, v in sorted(na.items())],
}
json.dump(m, open(os.path.join(V, "MANIFEST.json"), "w"), indent=1)
print("wrote MANIFEST.json:", [c["property_id"] for c in checks])
